#!/usr/bin/env python3
"""Mechanical C++ -> C extraction of single functions from /repo (see DESIGN.md 4.1).

The extractor cuts the exact source text of a named function out of the repository file and
rewrites it by a fixed rule table into C that goto-cc accepts.  Every rule counts how often it
fired; units can state must-fire counts.  Anything the rules do not cover is left as is and makes
goto-cc fail => infrastructure error (exit 2), never a verdict.

Rules (names used in the evidence):
  R1  signature: `Ret Class::f(args) const` -> `Ret Class_f(Class* self, args)`
  R2  member identifiers -> self->m_x
  R3  reference parameters -> pointers, uses dereferenced
  R4  casts / nullptr / auto-with-cast
  R5  method calls and operator[] on objects -> C functions (table driven)
  R5d default arguments materialised at call sites
  R6  log statements removed
  R14 #define lines copied from the real headers
  R15 static tables copied
"""
import re, sys, os, json, hashlib

TOKEN_RE = re.compile(r'''
   (?P<ws>[ \t\r\n]+)
 | (?P<num>0[xX][0-9a-fA-F]+[uUlL]*|\d+\.\d*(?:[eE][-+]?\d+)?[fFlL]?|\.\d+(?:[eE][-+]?\d+)?[fFlL]?|\d+(?:[eE][-+]?\d+)?[uUlLfF]*)
 | (?P<id>[A-Za-z_]\w*)
 | (?P<str>"(?:\\.|[^"\\])*")
 | (?P<chr>'(?:\\.|[^'\\])*')
 | (?P<op>->\*|<<=|>>=|\.\.\.|->|::|\+\+|--|<<|>>|<=|>=|==|!=|&&|\|\||\+=|-=|\*=|/=|%=|&=|\|=|\^=|[-+*/%&|^~!<>=?:;,.(){}\[\]\#\\@])
''', re.X)


class ExtractError(Exception):
    pass


def strip_comments(text):
    """Replace comments by blanks, keeping newlines (so line numbers survive)."""
    out = []
    i, n = 0, len(text)
    while i < n:
        c = text[i]
        if c == '"' or c == "'":
            j = i + 1
            while j < n and text[j] != c:
                if text[j] == '\\':
                    j += 1
                j += 1
            out.append(text[i:j + 1])
            i = j + 1
        elif text.startswith('//', i):
            j = text.find('\n', i)
            if j < 0:
                j = n
            i = j
        elif text.startswith('/*', i):
            j = text.find('*/', i + 2)
            if j < 0:
                j = n - 2
            out.append(re.sub(r'[^\n]', ' ', text[i:j + 2]))
            i = j + 2
        else:
            out.append(c)
            i += 1
    return ''.join(out)


def apply_ifdefs(text, defines):
    """evaluate #if/#ifdef/#ifndef/#else/#elif/#endif for the configuration macros in `defines`
    (dict name -> value or None for undefined); lines of inactive branches and the directives
    themselves are blanked.  Only directives whose condition mentions a known name are handled."""
    out = []
    stack = []  # entries: [known, active_now, any_taken, parent_active]
    def cur_active():
        return all(e[1] for e in stack if e[0])
    def ev(expr):
        e = expr.strip()
        m = re.match(r'^defined\s*\(?\s*(\w+)\s*\)?$', e)
        if m and m.group(1) in defines:
            return defines[m.group(1)] is not None
        m = re.match(r'^(\w+)\s*(==|>=|>|!=)\s*(\d+)$', e)
        if m and m.group(1) in defines:
            v = defines[m.group(1)]
            v = int(v) if v is not None else 0
            return {'==': v == int(m.group(3)), '>=': v >= int(m.group(3)), '>': v > int(m.group(3)), '!=': v != int(m.group(3))}[m.group(2)]
        m = re.match(r'^(\w+)$', e)
        if m and m.group(1) in defines:
            v = defines[m.group(1)]
            return bool(int(v)) if v is not None else False
        return None
    for ln in text.split('\n'):
        m = re.match(r'^\s*#\s*(ifdef|ifndef|if|elif|else|endif)\b(.*)$', ln)
        if m:
            d, rest = m.group(1), m.group(2).strip()
            if d in ('ifdef', 'ifndef'):
                nm = rest.split()[0] if rest else ''
                if nm in defines:
                    val = defines[nm] is not None
                    if d == 'ifndef':
                        val = not val
                    stack.append([True, val, val])
                    out.append('')
                    continue
                stack.append([False, True, True])
            elif d == 'if':
                r = ev(rest)
                if r is not None:
                    stack.append([True, r, r])
                    out.append('')
                    continue
                stack.append([False, True, True])
            elif d == 'elif':
                if stack and stack[-1][0]:
                    r = ev(rest)
                    if r is None:
                        raise ExtractError('cannot evaluate #elif %s' % rest)
                    stack[-1][1] = (not stack[-1][2]) and r
                    stack[-1][2] = stack[-1][2] or r
                    out.append('')
                    continue
            elif d == 'else':
                if stack and stack[-1][0]:
                    stack[-1][1] = not stack[-1][2]
                    stack[-1][2] = True
                    out.append('')
                    continue
            elif d == 'endif':
                if stack:
                    e = stack.pop()
                    if e[0]:
                        out.append('')
                        continue
            out.append(ln if cur_active() else '')
            continue
        out.append(ln if cur_active() else '')
    return '\n'.join(out)


CONFIG_DEFINES = {'HAVE_DIRECT_FLOAT_FORMAT': '1', 'HAVE_PPOLL': '1', 'HAVE_PSELECT': '1', 'HAVE_CONTRIB': '1', 'HAVE_TIME_H': '1',
                  'HAVE_TIMEGM': '1', 'HAVE_CONFIG_H': '1', 'DEBUG_RAW_TRAFFIC': None, 'HAVE_FREEBSD_UFTDI': None, 'HAVE_LINUX_SERIAL': '1',
                  'HAVE_CFSETSPEED': '1', 'SIMULATE_NON_WORKING_SEND': None, 'HAVE_SSL': '1', 'HAVE_MQTT': '1', 'HAVE_KNX': '1', 'HAVE_KNXD': None,
                  'DEBUG_RAW_TRAFFIC_HEAD': None, '__CYGWIN__': None, '_WIN32': None}


def load_source(path):
    return apply_ifdefs(strip_comments(open(path).read()), CONFIG_DEFINES)


def tokenize(text):
    toks = []
    pos = 0
    while pos < len(text):
        m = TOKEN_RE.match(text, pos)
        if not m:
            raise ExtractError('cannot tokenize at %r' % text[pos:pos + 30])
        kind = m.lastgroup
        toks.append((kind, m.group()))
        pos = m.end()
    return toks


def untok(toks):
    return ''.join(t[1] for t in toks)


OPEN = {'(': ')', '[': ']', '{': '}'}
CLOSE = {v: k for k, v in OPEN.items()}


def match_fwd(toks, i):
    """index of the token closing the bracket opened at i"""
    o = toks[i][1]
    c = OPEN[o]
    depth = 0
    for j in range(i, len(toks)):
        t = toks[j][1]
        if toks[j][0] != 'op':
            continue
        if t == o:
            depth += 1
        elif t == c:
            depth -= 1
            if depth == 0:
                return j
    raise ExtractError('unbalanced %s' % o)


def match_back(toks, i):
    c = toks[i][1]
    o = CLOSE[c]
    depth = 0
    for j in range(i, -1, -1):
        t = toks[j][1]
        if toks[j][0] != 'op':
            continue
        if t == c:
            depth += 1
        elif t == o:
            depth -= 1
            if depth == 0:
                return j
    raise ExtractError('unbalanced %s' % c)


def prev_sig(toks, i):
    """index of previous non-ws token before i, or -1"""
    j = i - 1
    while j >= 0 and toks[j][0] == 'ws':
        j -= 1
    return j


def next_sig(toks, i):
    j = i + 1
    while j < len(toks) and toks[j][0] == 'ws':
        j += 1
    return j if j < len(toks) else -1


def postfix_start(toks, i):
    """toks[i] is '.', '->' or '['; return index of first token of the postfix expression before it."""
    j = prev_sig(toks, i)
    while True:
        if j < 0:
            raise ExtractError('no receiver')
        k, t = toks[j]
        if k == 'op' and t in (')', ']'):
            o = match_back(toks, j)
            p = prev_sig(toks, o)
            if t == ')' and p >= 0 and toks[p][0] == 'id' and toks[p][1] not in ('return', 'if', 'while', 'for', 'switch', 'case', 'sizeof'):
                j = p  # call: continue from the callee name
                # fallthrough to id handling
            elif t == ']' :
                j = p
                continue
            else:
                return o  # parenthesised primary
        k, t = toks[j]
        if k in ('id',):
            p = prev_sig(toks, j)
            if p >= 0 and toks[p][0] == 'op' and toks[p][1] in ('.', '->', '::'):
                j = prev_sig(toks, p)
                continue
            return j
        if k in ('str', 'num', 'chr'):
            return j
        raise ExtractError('cannot find receiver start at %r' % untok(toks[max(0, j - 5):j + 1]))


def split_args(toks):
    """split token list at top-level commas"""
    args, cur, depth = [], [], 0
    for k, t in toks:
        if k == 'op' and t in OPEN:
            depth += 1
        elif k == 'op' and t in CLOSE:
            depth -= 1
        elif k == 'op' and t == '<':
            pass
        if k == 'op' and t == ',' and depth == 0:
            args.append(cur)
            cur = []
        else:
            cur.append((k, t))
    if untok(cur).strip() or args:
        args.append(cur)
    return args


def find_function(text, qualname, nth=0, sig_contains=None):
    """Locate the definition of `qualname` (e.g. NumberDataType::parseInput or free isMaster).
    Definitions start in column 0 in this code base.  Returns dict with spans into `text`."""
    pat = re.compile(r'^(?P<ret>[A-Za-z_][\w:<>\*&\s,]*?[\s\*&])' + re.escape(qualname) + r'\s*\(', re.M)
    cands = []
    for m in pat.finditer(text):
        # parameter list
        ps = m.end() - 1
        depth, j = 0, ps
        while True:
            ch = text[j]
            if ch == '(':
                depth += 1
            elif ch == ')':
                depth -= 1
                if depth == 0:
                    break
            j += 1
        pe = j
        rest = text[pe + 1:]
        m2 = re.match(r'\s*(const)?\s*(override)?\s*\{', rest)
        if not m2:
            continue  # a declaration or a call, not a definition
        bs = pe + 1 + m2.end() - 1
        depth, j = 0, bs
        instr = None
        while True:
            ch = text[j]
            if instr:
                if ch == '\\':
                    j += 1
                elif ch == instr:
                    instr = None
            elif ch in '"\'':
                instr = ch
            elif ch == '{':
                depth += 1
            elif ch == '}':
                depth -= 1
                if depth == 0:
                    break
            j += 1
        be = j
        if sig_contains and sig_contains not in text[ps:pe + 1]:
            continue
        cands.append(dict(start=m.start(), ret=m.group('ret').strip(), params=text[ps + 1:pe],
                          is_const=bool(m2.group(1)), body_start=bs, body_end=be,
                          line=text.count('\n', 0, m.start()) + 1,
                          body_line=text.count('\n', 0, bs) + 1))
    if len(cands) <= nth:
        raise ExtractError('function %s (#%d, sig~%r) not found' % (qualname, nth, sig_contains))
    if sig_contains is None and len(cands) > 1 and nth == 0:
        # ambiguous overloads must be disambiguated explicitly
        raise ExtractError('function %s is overloaded (%d definitions); give nth/sig_contains' % (qualname, len(cands)))
    return cands[nth]


def find_inline_method(text, classname, method, nth=0, sig_contains=None):
    """Locate an inline method defined inside `class classname {...}` in a header."""
    m = re.search(r'^class\s+' + re.escape(classname) + r'\b[^;{]*\{', text, re.M)
    if not m:
        raise ExtractError('class %s not found' % classname)
    cs = m.end() - 1
    depth, j = 0, cs
    while True:
        ch = text[j]
        if ch == '{':
            depth += 1
        elif ch == '}':
            depth -= 1
            if depth == 0:
                break
        j += 1
    ce = j
    body = text[cs:ce]
    pat = re.compile(r'^\s+(?P<ret>(?:virtual\s+|static\s+|explicit\s+)?[A-Za-z_][\w:<>\*&\s]*?[\s\*&])' + re.escape(method) + r'\s*\(', re.M)
    cands = []
    for mm in pat.finditer(body):
        ps = cs + mm.end() - 1
        depth, j = 0, ps
        while True:
            ch = text[j]
            if ch == '(':
                depth += 1
            elif ch == ')':
                depth -= 1
                if depth == 0:
                    break
            j += 1
        pe = j
        m2 = re.match(r'\s*(const)?\s*(override)?\s*\{', text[pe + 1:])
        if not m2:
            continue
        bs = pe + 1 + m2.end() - 1
        depth, j = 0, bs
        while True:
            ch = text[j]
            if ch == '{':
                depth += 1
            elif ch == '}':
                depth -= 1
                if depth == 0:
                    break
            j += 1
        be = j
        if sig_contains is not None and sig_contains not in text[ps:pe + 1] + (' const' if m2.group(1) else ''):
            continue
        ret = re.sub(r'\b(virtual|static|explicit)\b', '', mm.group('ret')).strip()
        cands.append(dict(start=cs + mm.start(), ret=ret, params=text[ps + 1:pe], is_const=bool(m2.group(1)),
                          body_start=bs, body_end=be, line=text.count('\n', 0, cs + mm.start()) + 2,
                          body_line=text.count('\n', 0, bs) + 1))
    if len(cands) <= nth:
        raise ExtractError('inline method %s::%s (#%d sig~%r) not found' % (classname, method, nth, sig_contains))
    return cands[nth]


def class_members(text, classname):
    """(type, name, arraydim) of data members m_* declared in class `classname`."""
    m = re.search(r'^(?:class|struct)\s+' + re.escape(classname) + r'\b[^;{]*\{', text, re.M)
    if not m:
        raise ExtractError('class %s not found' % classname)
    cs = m.end() - 1
    depth, j = 0, cs
    while True:
        ch = text[j]
        if ch == '{':
            depth += 1
        elif ch == '}':
            depth -= 1
            if depth == 0:
                break
        j += 1
    body = text[cs + 1:j]
    # drop nested braces (inline method bodies)
    out, depth = [], 0
    for ch in body:
        if ch == '{':
            depth += 1
        elif ch == '}':
            depth -= 1
        elif depth == 0:
            out.append(ch)
    flat = ''.join(out)
    flat = re.sub(r'\b(public|private|protected)\s*:', ';', flat)
    res = []
    for mm in re.finditer(r'(?:^|;|:)\s*((?:static\s+|const\s+|mutable\s+)*[A-Za-z_][\w:<>,\*\s]*?[\s\*])(m_\w+|s_\w+)\s*(\[[^\]]*\])?\s*(?:=\s*[^;]+)?;', flat, re.M):
        res.append((re.sub(r'\s+', ' ', mm.group(1)).strip(), mm.group(2), mm.group(3) or ''))
    return res


def header_defines(text, names=None, exclude=()):
    """R14: #define lines (with continuations) from a real header; guards and function-like
    macros named in exclude are skipped."""
    out = []
    lines = text.split('\n')
    i = 0
    while i < len(lines):
        ln = lines[i]
        m = re.match(r'\s*#\s*define\s+(\w+)', ln)
        if m:
            blk = [ln]
            while blk[-1].rstrip().endswith('\\') and i + 1 < len(lines):
                i += 1
                blk.append(lines[i])
            name = m.group(1)
            rest = ln[m.end():].strip()
            if (names is None or name in names) and name not in exclude and rest != '' and not name.endswith('_H_'):
                out.append('\n'.join(blk))
        i += 1
    return out


def find_table(text, name):
    """R15: copy a static table definition `static const T name[] = {...};`"""
    m = re.search(r'^(static\s+)?const\s+[\w:]+\s+' + re.escape(name) + r'\s*\[[^\]]*\]\s*=\s*\{', text, re.M)
    if not m:
        raise ExtractError('table %s not found' % name)
    j = text.index('};', m.end())
    return text[m.start():j + 2], text.count('\n', 0, m.start()) + 1


def find_enum(text, name):
    m = re.search(r'^enum\s+(?:class\s+)?' + re.escape(name) + r'\b[^{;]*\{', text, re.M)
    if not m:
        raise ExtractError('enum %s not found' % name)
    j = text.index('}', m.end())
    body = text[m.end():j]
    return body


class Rewriter:
    def __init__(self, cfg):
        self.cfg = cfg
        self.fires = {}

    def fire(self, rule, n=1):
        self.fires[rule] = self.fires.get(rule, 0) + n

    # ---- signature ----
    def signature(self, fn, cname, self_type, extra_self_const=False):
        params = fn['params'].strip()
        plist = []
        refs = {}
        if self_type:
            plist.append(('const ' if (fn['is_const'] and self.cfg.get('const_self', True)) else '') + self_type + '* self')
            self.fire('R1')
        if params and params != 'void':
            for p in split_args(tokenize(params)):
                ptxt = untok(p).strip()
                ptxt = re.sub(r'\s+', ' ', ptxt)
                # drop default value
                ptxt = re.sub(r'\s*=\s*[^,]+$', '', ptxt)
                m = re.match(r'^(.*?)\s*&\s*(\w+)$', ptxt)
                if m:
                    ty, nm = m.group(1), m.group(2)
                    ty = self.map_type(ty)
                    plist.append('%s* %s' % (ty, nm))
                    refs[nm] = ty
                    self.fire('R3')
                else:
                    m = re.match(r'^(.*?)(\w+)$', ptxt)
                    if not m:
                        raise ExtractError('cannot parse parameter %r' % ptxt)
                    ty, nm = m.group(1).strip(), m.group(2)
                    if ty == '':  # unnamed parameter
                        ty, nm = nm, '_unused%d' % len(plist)
                    byval = self.cfg.get('byval_as_ptr', {})
                    base = re.sub(r'\bconst\b', '', ty).replace('std::', '').strip()
                    ty = self.map_type(ty)
                    if base in byval:
                        plist.append('const %s* %s' % (byval[base], nm))
                        refs[nm] = byval[base]
                        self.fire('R3v')
                    else:
                        plist.append('%s %s' % (ty, nm))
        ret = self.map_type(re.sub(r'\b(static|virtual|inline)\b', '', fn['ret']).strip())
        if ret.endswith('&'):
            ret = ret[:-1].strip() + '*'
            self.fire('R3r')
        return ret, cname, plist, refs

    def map_type(self, ty):
        ty = re.sub(r'\s+', ' ', ty).strip()
        ty = ty.replace('std::', '')
        tm = self.cfg.get('type_map', {})
        core = re.sub(r'\bconst\b', '', ty).replace('*', '').strip()
        if core in tm:
            ty = ty.replace(core, tm[core])
        ty = re.sub(r'\bbool\b', '_Bool', ty)
        return ty

    # ---- body ----
    def body(self, text, refs, self_type, is_const):
        cfg = self.cfg
        # R10f: range-for over a modelled container -> index loop
        ranges = cfg.get('ranges', {})
        def _rf(m):
            cont = m.group(4).strip()
            if cont not in ranges:
                raise ExtractError('range-for over %r: no container model' % cont)
            ety, size_fn, at_fn = ranges[cont]
            name = m.group(3)
            self.fire('R10f')
            return 'for (size_t _i_%s = 0; _i_%s < %s(&%s); _i_%s++) { %s %s = %s(&%s, _i_%s);' % (name, name, size_fn, cont, name, ety, name, at_fn, cont, name)
        text = re.sub(r'for\s*\(\s*(const\s+)?auto\s*(&|\*)?\s*(\w+)\s*:\s*([^)]+)\)\s*\{', _rf, text)
        toks = tokenize(text)
        toks = self.r6_logs(toks)
        toks = self.r4_casts(toks)
        toks = self.r5_methods(toks, refs, is_const)
        toks = self.r2_members(toks, refs, self_type)
        toks = self.decl_types(toks)
        out = untok(toks)
        for sub in cfg.get('text_subs', []):
            pat, repl = sub[0], sub[1]
            out, n = re.subn(pat, repl, out)
            self.fire('T:' + pat, n)
        return out

    def decl_types(self, toks):
        tm = self.cfg.get('type_map', {})
        out = []
        for k, t in toks:
            if k == 'id' and t == 'bool':
                out.append((k, '_Bool'))
            elif k == 'id' and t in tm and self.cfg.get('map_local_types', True):
                out.append((k, tm[t]))
            else:
                out.append((k, t))
        return out

    def r6_logs(self, toks):
        names = set(self.cfg.get('drop_calls', ['logDebug', 'logInfo', 'logNotice', 'logError', 'logOtherDebug', 'logOtherInfo', 'logOtherNotice', 'logOtherError', 'logWrite']))
        out = []
        i = 0
        while i < len(toks):
            k, t = toks[i]
            if k == 'id' and t in names:
                p = prev_sig(toks, i)
                n = next_sig(toks, i)
                if n > 0 and toks[n][1] == '(' and (p < 0 or toks[p][1] in (';', '{', '}', ')', 'else', ':')):
                    e = match_fwd(toks, n)
                    inner = untok(toks[n:e + 1])
                    if re.search(r'\+\+|--|[^=!<>]=[^=]', inner):
                        raise ExtractError('log statement with side effect: %s' % inner)
                    s = next_sig(toks, e)
                    if s < 0 or toks[s][1] != ';':
                        raise ExtractError('log call not a statement')
                    # keep newlines for line numbering
                    nl = untok(toks[i:s + 1]).count('\n')
                    out.append(('op', ';'))
                    out.append(('ws', '\n' * nl))
                    self.fire('R6')
                    i = s + 1
                    continue
            out.append(toks[i])
            i += 1
        return out

    def r4_casts(self, toks):
        out = []
        i = 0
        while i < len(toks):
            k, t = toks[i]
            if k == 'id' and t in ('static_cast', 'reinterpret_cast', 'const_cast'):
                n = next_sig(toks, i)
                if toks[n][1] != '<':
                    raise ExtractError('bad cast')
                j = n + 1
                depth = 1
                while depth:
                    if toks[j][1] == '<':
                        depth += 1
                    elif toks[j][1] == '>':
                        depth -= 1
                    elif toks[j][1] == '>>':
                        depth -= 2
                    j += 1
                ty = untok(toks[n + 1:j - 1]).strip()
                ty = self.map_type(ty)
                out.append(('op', '('))
                out.append(('id', ty))
                out.append(('op', ')'))
                self.fire('R4')
                i = j
                continue
            if k == 'id' and t == 'nullptr':
                out.append(('id', 'NULL'))
                self.fire('R4n')
                i += 1
                continue
            if k == 'id' and t == 'auto':
                # auto x = (T)...  /  auto* x = (T*)...
                n = next_sig(toks, i)
                star = ''
                if toks[n][1] == '*':
                    star = '*'
                    n = next_sig(toks, n)
                name = toks[n][1]
                auto_types = self.cfg.get('auto_types', {})
                if name in auto_types:
                    out.append(('id', auto_types[name]))
                    self.fire('R4a')
                    i = i + 1
                    if star:
                        # drop the star, the configured type includes it
                        i = prev_sig(toks, n) + 1
                        out.append(('ws', ' '))
                    continue
                e = next_sig(toks, n)
                c = next_sig(toks, e)
                if toks[e][1] == '=' and toks[c][1] in ('static_cast', 'reinterpret_cast'):
                    a = next_sig(toks, c)
                    j = a + 1
                    depth = 1
                    while depth:
                        if toks[j][1] == '<':
                            depth += 1
                        elif toks[j][1] == '>':
                            depth -= 1
                        j += 1
                    ty = self.map_type(untok(toks[a + 1:j - 1]).strip())
                    if star and ty.endswith('*'):
                        ty = ty[:-1]
                    out.append(('id', ty))
                    self.fire('R4a')
                    i += 1
                    continue
                raise ExtractError('auto %s without cast: add auto_types' % name)
            out.append(toks[i])
            i += 1
        return out

    def r5_methods(self, toks, refs, is_const):
        """method calls / operator[] / own-class calls; repeated until fixpoint"""
        cfg = self.cfg
        methods = cfg.get('methods', {})
        own = cfg.get('own_methods', {})
        statics = cfg.get('static_calls', {})
        index = cfg.get('index', [])
        defaults = cfg.get('defaults', {})
        deref = set(cfg.get('ref_returns', []))
        changed = True
        guard = 0
        while changed:
            guard += 1
            if guard > 2000:
                raise ExtractError('rewrite loop')
            changed = False
            for i in range(len(toks)):
                k, t = toks[i]
                # Class::staticMethod(  /  Base::method(
                if k == 'op' and t == '::':
                    p = prev_sig(toks, i)
                    n = next_sig(toks, i)
                    if p >= 0 and toks[p][0] == 'id' and toks[n][0] == 'id':
                        q = toks[p][1] + '::' + toks[n][1]
                        if q in statics:
                            cf = statics[q]
                            nn = next_sig(toks, n)
                            if isinstance(cf, tuple):  # (cname, 'self') base-class method call
                                e = match_fwd(toks, nn)
                                inner = toks[nn + 1:e]
                                has = untok(inner).strip() != ''
                                new = [('id', cf[0]), ('op', '('), ('id', cf[1])] + ([('op', ','), ('ws', ' ')] if has else []) + inner + [('op', ')')]
                                toks = toks[:p] + new + toks[e + 1:]
                            else:
                                toks = toks[:p] + [('id', cf)] + toks[n + 1:]
                            self.fire('R5s')
                            changed = True
                            break
                        if toks[p][1] == 'std':
                            toks = toks[:p] + toks[n:]
                            self.fire('R5std')
                            changed = True
                            break
                # obj.method( / ptr->method(
                if k == 'op' and t in ('.', '->'):
                    n = next_sig(toks, i)
                    if n < 0 or toks[n][0] != 'id':
                        continue
                    nn = next_sig(toks, n)
                    if nn < 0 or toks[nn][1] != '(':
                        continue
                    name = toks[n][1]
                    if name not in methods:
                        continue
                    s = postfix_start(toks, i)
                    recv = toks[s:i]
                    recv_txt = untok(recv).strip()
                    target = methods[name]
                    if isinstance(target, list):
                        cf = None
                        for pat, c in target:
                            if re.search(pat, recv_txt):
                                cf = c
                                break
                        if cf is None:
                            raise ExtractError('no receiver rule for %s.%s' % (recv_txt, name))
                    else:
                        cf = target
                    e = match_fwd(toks, nn)
                    inner = toks[nn + 1:e]
                    has = untok(inner).strip() != ''
                    if t == '.':
                        if recv_txt in refs:
                            rtoks = [('id', recv_txt)]   # reference parameter: already a pointer
                            refs_used = True
                        elif re.match(r'^(%s)\(' % '|'.join(cfg.get('ptr_calls', ['\x00'])), recv_txt):
                            rtoks = recv                 # call returning a C++ reference = C pointer
                        else:
                            rtoks = [('op', '&')] + ([('op', '(')] + recv + [('op', ')')] if len(recv) > 1 else recv)
                    else:
                        rtoks = recv
                    argl = split_args(inner) if has else []
                    nargs = len(argl)
                    new = [('id', cf), ('op', '(')] + rtoks
                    if has:
                        new += [('op', ','), ('ws', ' ')] + inner
                    if cf in defaults:
                        total, dvals = defaults[cf]
                        have = 1 + nargs
                        if have < total:
                            for dv in dvals[len(dvals) - (total - have):]:
                                new += [('op', ','), ('ws', ' '), ('id', dv)]
                                self.fire('R5d')
                    new += [('op', ')')]
                    if cf in deref:
                        new = [('op', '('), ('op', '*')] + new + [('op', ')')]
                    toks = toks[:s] + new + toks[e + 1:]
                    self.fire('R5')
                    changed = True
                    break
                # X[i] on objects
                if k == 'op' and t == '[' and index:
                    p = prev_sig(toks, i)
                    if p < 0 or not (toks[p][0] == 'id' or toks[p][1] in (')', ']')):
                        continue
                    if toks[p][0] == 'id' and toks[p][1] in ('return', 'case'):
                        continue
                    try:
                        s = postfix_start(toks, i)
                    except ExtractError:
                        continue
                    recv = toks[s:i]
                    recv_txt = untok(recv).strip()
                    cf = None
                    for pat, c in index:
                        if re.search(pat, recv_txt):
                            cf = c
                            break
                    if cf is None:
                        continue
                    e = match_fwd(toks, i)
                    inner = toks[i + 1:e]
                    if recv_txt in refs:
                        rtoks = [('id', recv_txt)]
                    elif cfg.get('index_ptr', {}).get(cf) or re.match(r'^(%s)\(' % '|'.join(cfg.get('ptr_calls', ['\x00'])), recv_txt):
                        rtoks = recv
                    else:
                        rtoks = [('op', '&')] + ([('op', '(')] + recv + [('op', ')')] if len(recv) > 1 else recv)
                    new = [('id', cf), ('op', '(')] + rtoks + [('op', ','), ('ws', ' ')] + inner + [('op', ')')]
                    if cf in deref:
                        new = [('op', '('), ('op', '*')] + new + [('op', ')')]
                    toks = toks[:s] + new + toks[e + 1:]
                    self.fire('R5i')
                    changed = True
                    break
                # own-class method or free function with defaults: name(
                if k == 'id' and (t in own or t in defaults):
                    p = prev_sig(toks, i)
                    if p >= 0 and toks[p][1] in ('.', '->', '::'):
                        continue
                    n = next_sig(toks, i)
                    if n < 0 or toks[n][1] != '(':
                        continue
                    if t in own:
                        cf, mode = own[t]
                    else:
                        cf, mode = t, 'free'
                    if toks[i][1] == cf and mode == 'free' and (k, t) == ('id', cf) and self._done_default(toks, i):
                        continue
                    e = match_fwd(toks, n)
                    inner = toks[n + 1:e]
                    has = untok(inner).strip() != ''
                    argl = split_args(inner) if has else []
                    new = [('id', cf), ('op', '(')]
                    have = len(argl)
                    if mode == 'self':
                        new += [('id', 'self')]
                        if has:
                            new += [('op', ','), ('ws', ' ')]
                        have += 1
                    new += inner
                    if cf in defaults:
                        total, dvals = defaults[cf]
                        if have < total:
                            for dv in dvals[len(dvals) - (total - have):]:
                                new += [('op', ','), ('ws', ' '), ('id', dv)]
                                self.fire('R5d')
                    new += [('op', ')')]
                    new[0] = ('id\x00', cf)  # mark as done
                    toks = toks[:i] + new + toks[e + 1:]
                    self.fire('R5o')
                    changed = True
                    break
        return [('id', t) if k == 'id\x00' else (k, t) for k, t in toks]

    def _done_default(self, toks, i):
        return False

    def r2_members(self, toks, refs, self_type):
        members = self.cfg.get('members', set())
        locals_shadow = set(self.cfg.get('not_members', []))
        out = []
        for i, (k, t) in enumerate(toks):
            if k == 'id':
                p = prev_sig(toks, i)
                after_access = p >= 0 and toks[p][0] == 'op' and toks[p][1] in ('.', '->', '::')
                if not after_access and self_type and t in members and t not in locals_shadow:
                    out.append(('id', 'self->' + t))
                    self.fire('R2')
                    continue
                if not after_access and t in refs:
                    n = next_sig(toks, i)
                    if n > 0 and toks[n][1] == '.':
                        # x.field -> x->field
                        out.append(('id', t))
                        continue
                    # already passed as pointer by R5 (receiver of a method call)?
                    if p >= 0 and toks[p][1] in ('(', ',') and n > 0 and toks[n][1] in (',', ')') and self._is_ptr_arg(toks, i, p):
                        out.append(('id', t))
                        continue
                    out.append(('id', '(*%s)' % t))
                    self.fire('R3u')
                    continue
                if not after_access and t == 'this':
                    out.append(('id', 'self'))
                    continue
            if k == 'op' and t == '.':
                p = prev_sig(toks, i)
                if p >= 0 and toks[p][0] == 'id' and toks[p][1] in refs:
                    pp = prev_sig(toks, p)
                    if not (pp >= 0 and toks[pp][1] in ('.', '->')):
                        out.append(('op', '->'))
                        continue
            out.append((k, t))
        return out

    def _is_ptr_arg(self, toks, i, p):
        """true if identifier at i is the first argument of a C function produced by R5 (receiver)"""
        if toks[p][1] != '(':
            return False
        q = prev_sig(toks, p)
        if q < 0 or toks[q][0] != 'id':
            return False
        name = toks[q][1]
        cfns = self.cfg.get('_recv_cfns')
        if cfns is None:
            cfns = set()
            for v in self.cfg.get('methods', {}).values():
                if isinstance(v, list):
                    cfns.update(c for _, c in v)
                else:
                    cfns.add(v)
            for _, c in self.cfg.get('index', []):
                cfns.add(c)
            self.cfg['_recv_cfns'] = cfns
        return name in cfns


def splice_loops(body, loop_contracts, fnname):
    """Insert loop contract text between the header of the k-th loop (for/while/do in source order)
    and its body.  loop_contracts: {k: text}."""
    if not loop_contracts:
        return body, 0
    toks = tokenize(body)
    out = []
    k = -1
    i = 0
    n_ins = 0
    pending_do = []
    while i < len(toks):
        kind, t = toks[i]
        if kind == 'id' and t in ('for', 'while'):
            n = next_sig(toks, i)
            e = match_fwd(toks, n)
            after = next_sig(toks, e)
            if t == 'while' and toks[after][1] == ';' and pending_do and pending_do[-1][1] == 0:
                # tail of do-while: contract goes here (before ;)
                kk = pending_do.pop()[0]
                out.extend(toks[i:e + 1])
                if kk in loop_contracts:
                    out.append(('ws', '\n' + loop_contracts[kk] + '\n'))
                    n_ins += 1
                i = e + 1
                continue
            k += 1
            out.extend(toks[i:e + 1])
            if k in loop_contracts:
                out.append(('ws', '\n' + loop_contracts[k] + '\n'))
                n_ins += 1
            i = e + 1
            continue
        if kind == 'id' and t == 'do':
            k += 1
            pending_do.append([k, 0])
            out.append(toks[i])
            i += 1
            continue
        if kind == 'op' and t == '{' and pending_do:
            for pd in pending_do:
                pd[1] += 1
        if kind == 'op' and t == '}' and pending_do:
            for pd in pending_do:
                pd[1] -= 1
        out.append(toks[i])
        i += 1
    if n_ins != len(loop_contracts):
        raise ExtractError('%s: %d loop contracts given, %d spliced (loops found: %d)' % (fnname, len(loop_contracts), n_ins, k + 1))
    return untok(out), n_ins


def splice_anchors(body, anchors, fnname):
    """Insert ghost statements at anchored points: list of (regex, 'before'|'after', text).  The regex
    must match exactly once in the rewritten body."""
    n = 0
    for pat, where, text in anchors or []:
        ms = list(re.finditer(pat, body))
        if len(ms) != 1:
            raise ExtractError('%s: anchor %r matched %d times' % (fnname, pat, len(ms)))
        m = ms[0]
        pos = m.start() if where == 'before' else m.end()
        # a ghost statement may only be placed at a statement boundary: splicing it after `else` or into an expression would change the code
        prev = body[:pos].rstrip()
        if not (prev == '' or prev[-1] in ';{}'):
            raise ExtractError('%s: anchor %r is not at a statement boundary (preceded by %r)' % (fnname, pat, prev[-12:]))
        body = body[:pos] + ' ' + text + ' ' + body[pos:]
        n += 1
    return body, n



def stream_out_transform(body, stream_vars, str_macros=()):
    """R11: `*out << a << b << ...;` -> one call per operand (out_str / out_char / out_dec / out_setw / out_fill / OUT_NUM).
    Operands are split at top-level `<<` only; returns (body, number of chains rewritten)."""
    n = 0
    for var in stream_vars:
        pat = re.compile(r'(?<![\w>.])(\*\s*' + re.escape(var) + r'|' + re.escape(var) + r')\s*<<')
        pos = 0
        out = []
        while True:
            m = pat.search(body, pos)
            if not m:
                out.append(body[pos:])
                break
            # find the end of the statement
            depth = 0
            i = m.end()
            ops = []
            cur = m.end()
            instr = None
            while i < len(body):
                c = body[i]
                if instr:
                    if c == '\\':
                        i += 2
                        continue
                    if c == instr:
                        instr = None
                elif c in '"\'':
                    instr = c
                elif c in '([{':
                    depth += 1
                elif c in ')]}':
                    depth -= 1
                elif c == ';' and depth == 0:
                    break
                elif c == '<' and depth == 0 and body[i:i + 2] == '<<':
                    ops.append(body[cur:i])
                    i += 2
                    cur = i
                    continue
                i += 1
            ops.append(body[cur:i])
            target = var if m.group(1).startswith('*') else '&' + var
            calls = []
            for op in ops:
                o = op.strip()
                nl = '\n' * op.count('\n')
                if o in ('dec', 'fixed', 'std::skipws', 'skipws', 'std::fixed', 'std::dec'):
                    calls.append('out_%s(%s);%s' % (o.split('::')[-1], target, nl))
                elif re.match(r'^(std::)?resetiosflags\(.*\)$', o):
                    arg = re.match(r'^(std::)?resetiosflags\((.*)\)$', o).group(2).strip()
                    if re.match(r'^\w+->flags\(\)$', arg):       # all flags currently set
                        calls.append('out_resetflags(%s);%s' % (target, nl))
                    else:                                          # a mask: which flag groups does it name?
                        calls.append('out_resetflags_mask(%s, %d, %d, %d);%s' % (target, int('basefield' in arg), int('floatfield' in arg), int('adjustfield' in arg), nl))
                elif o == 'hex':
                    calls.append('out_hex(%s);%s' % (target, nl))
                elif re.match(r'^setw\((.*)\)$', o):
                    calls.append('out_setw(%s, %s);%s' % (target, re.match(r'^setw\((.*)\)$', o).group(1), nl))
                elif re.match(r'^setfill\((.*)\)$', o):
                    calls.append('out_fill(%s, %s);%s' % (target, re.match(r'^setfill\((.*)\)$', o).group(1), nl))
                elif re.match(r'^setprecision\((.*)\)$', o):
                    calls.append('out_precision(%s, %s);%s' % (target, re.match(r'^setprecision\((.*)\)$', o).group(1), nl))
                elif o.startswith('"') or o in str_macros:
                    calls.append('out_str(%s, %s);%s' % (target, o, nl))
                elif o.startswith("'") or o.startswith('static_cast<char>('):
                    calls.append('out_char(%s, %s);%s' % (target, o, nl))
                else:
                    calls.append('OUT_NUM(%s, %s);%s' % (target, o, nl))
            out.append(body[pos:m.start()])
            out.append('{ ' + ' '.join(calls) + ' }')
            pos = i + 1
            n += 1
        body = ''.join(out)
    return body, n


def extract_function(repo, spec, cfg, rw=None):
    """spec: dict(file=, name= qualified C++ name, cname=, self= C struct name or None, nth=, sig=,
    inline_class= for header inline methods, loops={k:text}, anchors=[...], static=bool)"""
    path = os.path.join(repo, spec['file'])
    raw = open(path).read()
    text = apply_ifdefs(strip_comments(raw), CONFIG_DEFINES)
    if spec.get('inline_class'):
        fn = find_inline_method(text, spec['inline_class'], spec['name'], spec.get('nth', 0), spec.get('sig'))
    else:
        fn = find_function(text, spec['name'], spec.get('nth', 0), spec.get('sig'))
    rw = rw or Rewriter(cfg)
    self_type = spec.get('self')
    ret, cname, plist, refs = rw.signature(fn, spec['cname'], self_type)
    if 'params_c' in spec:   # explicit C parameter list (after self) for signatures the rules cannot type
        plist = plist[:1 if self_type else 0] + list(spec['params_c'])
        refs = {}
    if 'ret' in spec:
        ret = spec['ret']
    body_src = text[fn['body_start']:fn['body_end'] + 1]
    if spec.get('fragment'):
        # R16: a contiguous statement sequence of a function too large to extract: from the unique match of `start` up to (excluding) the first
        # match of `end` after it; it must begin at a statement boundary and be brace balanced; the locals it uses become the given C parameters
        fr = spec['fragment']
        ms = list(re.finditer(fr['start'], body_src))
        if len(ms) != 1:
            raise ExtractError('%s: fragment start %r matched %d times' % (spec['name'], fr['start'], len(ms)))
        me = re.search(fr['end'], body_src[ms[0].start():])
        if not me:
            raise ExtractError('%s: fragment end %r not found' % (spec['name'], fr['end']))
        prev = body_src[:ms[0].start()].rstrip()
        frag = body_src[ms[0].start():ms[0].start() + me.start()]
        if prev[-1] not in ';{}' or frag.count('{') != frag.count('}'):
            raise ExtractError('%s: fragment is not a balanced statement sequence' % spec['name'])
        nl_before = body_src[:ms[0].start()].count('\n')
        body_src = '{' + '\n' * nl_before + frag + fr.get('tail', '') + '}'
        rw.fire('R16')
    for pat, repl, cnt in spec.get('pre_subs', []):
        body_src, n = re.subn(pat, lambda m_: (repl(m_) if callable(repl) else repl) + '\n' * m_.group(0).count('\n'), body_src, flags=re.S)
        lo_, hi_ = cnt if isinstance(cnt, tuple) else (cnt, cnt)
        if not (lo_ <= n <= hi_):
            raise ExtractError('%s: pre_sub %r matched %d times, expected %s' % (spec['name'], pat, n, cnt))
        rw.fire('P:' + pat[:40], n)
    if spec.get('stream_out'):
        so = spec['stream_out']
        body_src, nso = stream_out_transform(body_src, so['vars'], so.get('str_macros', ()))
        if nso < so.get('min', 1):
            raise ExtractError('%s: stream output rule R11 rewrote %d chains, expected at least %d' % (spec['name'], nso, so.get('min', 1)))
        rw.fire('R11', nso)
    body = rw.body(body_src, dict(refs), self_type, fn['is_const'])
    if fn['ret'].strip().endswith('&') and 'ret' not in spec:
        body, nref = re.subn(r'\breturn\s+([^;]+);', r'return &(\1);', body)
        rw.fire('R3rr', nref)
    body, nl = splice_loops(body, spec.get('loops'), spec['name'])
    body, na = splice_anchors(body, spec.get('anchors'), spec['name'])
    sig = '%s %s(%s)' % (ret, cname, ', '.join(plist) if plist else 'void')
    src_hash = hashlib.sha256(raw[fn['start']:fn['body_end'] + 1].encode()).hexdigest()[:16]
    line_directive = '#line %d "%s"\n' % (fn['body_line'], path)
    info = dict(name=spec['name'], cname=cname, file=spec['file'], line=fn['line'],
                end_line=text.count('\n', 0, fn['body_end']) + 1, sha=src_hash, loops_spliced=nl, anchors=na)
    return sig, line_directive + body, info
