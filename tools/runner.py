#!/usr/bin/env python3
"""Pipeline: extract unit -> goto-cc -> goto-instrument (DFCC) -> cbmc; parse results; cache by content."""
import os, sys, re, json, time, hashlib, subprocess, shutil, signal, threading, importlib.util, traceback
from concurrent.futures import ThreadPoolExecutor

HERE = os.path.dirname(os.path.abspath(__file__))
VERIF = os.path.dirname(HERE)
sys.path.insert(0, HERE)
import cxx2c

REPO = os.environ.get('VERIF_REPO', '/repo')
WORK = os.path.join(VERIF, '.work', 'dev' if os.environ.get('VERIF_KEEP') else 'p%d' % os.getpid())
BINCACHE = os.path.join(VERIF, '.work', 'bin')
import atexit
if not os.environ.get('VERIF_KEEP'):
    atexit.register(lambda: shutil.rmtree(WORK, ignore_errors=True))
CACHE = os.path.join(VERIF, '.cache')
MEM_KB = 14 * 1024 * 1024

SAFETY_CLASSES = ('overflow', 'pointer_dereference', 'array_bounds', 'undefined-shift', 'division-by-zero',
                  'pointer_arithmetic', 'pointer', 'unwind', 'NaN', 'float-overflow', 'enum-range', 'bounds',
                  'pointer_primitives', 'memory-leak', 'conversion', 'float-division-by-zero')

STD_FLAGS = ['--bounds-check', '--pointer-check', '--pointer-overflow-check', '--undefined-shift-check',
             '--signed-overflow-check', '--div-by-zero-check', '--object-bits', '12']


SELF_HASH = hashlib.sha256(open(os.path.abspath(__file__), 'rb').read()).hexdigest()[:12]


class InfraError(Exception):
    pass


def load_unit(name):
    path = os.path.join(VERIF, 'units', name, 'unit.py')
    spec = importlib.util.spec_from_file_location('unit_' + name, path)
    mod = importlib.util.module_from_spec(spec)
    spec.loader.exec_module(mod)
    u = mod.UNIT
    u['name'] = name
    u['dir'] = os.path.dirname(path)
    return u


def all_units():
    d = os.path.join(VERIF, 'units')
    return sorted(n for n in os.listdir(d) if os.path.exists(os.path.join(d, n, 'unit.py')))


def gen_struct(repo, sdef, rw):
    """struct generated from the member list of the real class (R2 support)."""
    lines = []
    names = set()
    parts = sdef.get('parts') or [(sdef['file'], c) for c in sdef['classes']]
    for pfile, cls in parts:
        text = cxx2c.strip_comments(open(os.path.join(repo, pfile)).read())
        for ty, nm, dim in cxx2c.class_members(text, cls):
            if ty.startswith('static'):
                continue
            if nm in sdef.get('skip', ()):
                continue
            cty = sdef.get('member_types', {}).get(nm)
            if cty is None:
                cty = re.sub(r'^const\s+', '', rw.map_type(ty))
                if re.search(r'[<>:]', cty):
                    raise cxx2c.ExtractError('struct %s: no C type for member %s of type %r' % (sdef['cname'], nm, ty))
            lines.append('  %s %s%s;' % (cty, nm, dim))
            names.add(nm)
    for extra in sdef.get('extra', []):
        lines.append('  ' + extra)
    return 'typedef struct %s {\n%s\n} %s;\n' % (sdef['cname'], '\n'.join(lines), sdef['cname']), names


def extract_unit(unit, repo=REPO):
    """writes gen_types.h and gen_funcs.inc into the unit's work dir; returns info dict"""
    wd = os.path.join(WORK, unit['name'])
    os.makedirs(wd, exist_ok=True)
    cfg = dict(unit.get('cfg', {}))
    rw = cxx2c.Rewriter(cfg)
    types = ['/* generated from %s -- do not edit */' % repo]
    for f, names, *rest in unit.get('defines', []):
        txt = open(os.path.join(repo, f)).read()
        excl = rest[0] if rest else ()
        got = cxx2c.header_defines(cxx2c.strip_comments(txt), names, excl)
        if names is not None and len(got) != len(names):
            raise cxx2c.ExtractError('defines missing in %s: wanted %s' % (f, names))
        types += got
        rw.fire('R14', len(got))
    for f, name, *rest in unit.get('enums', []):
        txt = cxx2c.strip_comments(open(os.path.join(repo, f)).read())
        body = cxx2c.find_enum(txt, name)
        cn = rest[0] if rest else name
        types.append('typedef enum %s {%s} %s;' % (cn + '_e', body, cn + '_e'))
        if len(rest) > 1:
            types.append('typedef %s %s;' % (rest[1], cn))
        else:
            types.append('typedef %s_e %s;' % (cn, cn))
        rw.fire('R15e')
    for f, name in unit.get('ctypedefs', []):
        txt = cxx2c.strip_comments(open(os.path.join(repo, f)).read())
        m = re.search(r'^typedef\s+struct\s+\w*\s*\{[^}]*\}\s*' + re.escape(name) + r'\s*;', txt, re.M)
        if not m:
            raise cxx2c.ExtractError('typedef struct %s not found in %s' % (name, f))
        types.append(re.sub(r'\bbool\b', '_Bool', m.group(0)))
        rw.fire('R15t')
    members = set(cfg.get('members', ()))
    for sdef in unit.get('structs', []):
        s, names = gen_struct(repo, sdef, rw)
        types.append(s)
        if sdef.get('is_self', True):
            members |= names
    cfg['members'] = members
    rw.cfg = cfg
    funcs = []
    infos = []
    for f, name in unit.get('tables', []):
        txt = cxx2c.strip_comments(open(os.path.join(repo, f)).read())
        t, line = cxx2c.find_table(txt, name)
        t = re.sub(r'\bProtocolState\b', 'ProtocolState', t)
        funcs.append('#line %d "%s"\n%s\n' % (line, os.path.join(repo, f), t))
        rw.fire('R15')
    for gen in unit.get('generated', []):      # unit-specific mechanical generators: callable(repo) -> (C text, count); must produce something
        gtxt, gcount = gen(repo)
        if not gcount:
            raise cxx2c.ExtractError('%s: generator %s produced nothing' % (unit['name'], getattr(gen, '__name__', 'gen')))
        funcs.append(gtxt + '\n')
        rw.fire('R15g', gcount)
    protos = []
    for spec in unit['functions']:
        fcfg = cfg
        if spec.get('cfg'):
            fcfg = dict(cfg)
            for k, v in spec['cfg'].items():
                if isinstance(v, dict) and isinstance(cfg.get(k), dict):
                    d = dict(cfg[k]); d.update(v); fcfg[k] = d
                elif isinstance(v, list) and isinstance(cfg.get(k), list):
                    fcfg[k] = v + cfg[k]
                else:
                    fcfg[k] = v
            fcfg.pop('_recv_cfns', None)
        frw = cxx2c.Rewriter(fcfg)
        sig, body, info = cxx2c.extract_function(repo, spec, fcfg, frw)
        for k, v in frw.fires.items():
            rw.fire(k, v)
        info['fires'] = dict(frw.fires)
        for rule, cnt in (spec.get('must_fire') or {}).items():
            if frw.fires.get(rule, 0) != cnt:
                raise cxx2c.ExtractError('%s: rule %s fired %d times, must fire %d' % (spec['name'], rule, frw.fires.get(rule, 0), cnt))
        if spec.get('static'):
            sig = 'static ' + sig
        protos.append(sig + ';')
        funcs.append(sig + '\n' + body + '\n')
        infos.append(info)
    types.append('/* prototypes of extracted functions */')
    open(os.path.join(wd, 'gen_types.h'), 'w').write('\n'.join(types) + '\n')
    open(os.path.join(wd, 'gen_protos.h'), 'w').write('\n'.join(protos) + '\n')
    open(os.path.join(wd, 'gen_funcs.inc'), 'w').write('\n'.join(funcs))
    return dict(functions=infos, fires=rw.fires, workdir=wd)


_LIVE = set()      # process groups of running tools, killed when the check itself is terminated


def _kill_live(*_):
    for pid in list(_LIVE):
        try:
            os.killpg(pid, signal.SIGKILL)
        except OSError:
            pass
    if _:
        if not os.environ.get('VERIF_KEEP'):
            shutil.rmtree(WORK, ignore_errors=True)
        os._exit(2)


atexit.register(_kill_live)
if threading.current_thread() is threading.main_thread():
    signal.signal(signal.SIGTERM, _kill_live)
    signal.signal(signal.SIGINT, _kill_live)


def sh(cmd, timeout, cwd=None, mem_kb=MEM_KB, tmpdir=None):
    """run a tool under a memory limit in its own process group; on timeout the whole group (cbmc and an external SAT
    solver it started) is killed; temporary files (the CNF handed to an external solver) go to tmpdir, which is removed with the work directory"""
    t0 = time.time()
    pre = 'ulimit -v %d; ' % mem_kb
    env = dict(os.environ)
    if tmpdir:
        env['TMPDIR'] = tmpdir
    p = subprocess.Popen(['bash', '-c', pre + 'exec "$@"', 'sh'] + cmd, cwd=cwd, stdout=subprocess.PIPE, stderr=subprocess.PIPE, text=True,
                         start_new_session=True, env=env)
    _LIVE.add(p.pid)
    try:
        out, err = p.communicate(timeout=timeout)
        _LIVE.discard(p.pid)
        return p.returncode, out, err, time.time() - t0
    except subprocess.TimeoutExpired:
        try:
            os.killpg(p.pid, signal.SIGKILL)
        except OSError:
            pass
        out, err = p.communicate()
        _LIVE.discard(p.pid)
        return -9, out or '', 'TIMEOUT after %ds' % timeout, time.time() - t0


def tool_versions():
    rc, out, err, _ = sh(['cbmc', '--version'], 20)
    return out.strip()


def file_hash(paths):
    h = hashlib.sha256()
    for p in sorted(paths):
        h.update(p.encode())
        h.update(open(p, 'rb').read())
    return h


def classify(prop_name, desc):
    """contract-level vs safety obligation"""
    cls = prop_name.split('.')[-2] if '.' in prop_name else prop_name
    if cls in SAFETY_CLASSES:
        return 'safety', cls
    if 'unwinding assertion' in desc or '.unwind.' in prop_name:
        return 'safety', 'unwind'
    if cls in ('assigns',) or 'is assignable' in desc:
        return 'frame', cls
    if cls in ('precondition',):
        return 'callee_pre', cls
    if cls in ('postcondition',):
        return 'post', cls
    if 'loop invariant' in desc or 'loop_invariant' in prop_name:
        return 'loop_invariant', cls
    if 'decreases' in desc or 'loop_decreases' in prop_name:
        return 'decreases', cls
    if cls == 'assertion':
        return 'assertion', cls
    if 'no_body' in prop_name or 'no-body' in prop_name:
        return 'nobody', cls
    return 'other', cls


def run_one(unit, run, exinfo, tier, want_trace=False, nocache=False, only_props=None):
    """execute one verification run; returns result dict"""
    wd = exinfo['workdir']
    rid = run['id']
    rdir = os.path.join(wd, 'run_' + rid)
    os.makedirs(rdir, exist_ok=True)
    main_c = os.path.join(unit['dir'], run.get('main', 'main.c'))
    incs = ['-I', wd, '-I', unit['dir'], '-I', os.path.join(VERIF, 'model')]
    defs = ['-DVERIF_CBMC'] + ['-D' + d for d in run.get('defines', [])]
    entry = run['entry']
    t_start = time.time()
    # preprocess to obtain the cache key (the complete verified text)
    rc, pp, err, _ = sh(['gcc', '-E', '-P', '-xc', '-D__CPROVER_requires(x)=REQ(x)', '-DVERIF_PP'] + defs + incs + [main_c], 60)
    if rc != 0:
        # gcc -E can fail only for missing includes
        raise InfraError('preprocess failed for %s/%s: %s' % (unit['name'], rid, err[-2000:]))
    flags = list(STD_FLAGS)
    for fl in run.get('no_flags', []):
        if fl in flags:
            flags.remove(fl)
    flags += run.get('flags', [])
    if run.get('unwind'):
        flags += ['--unwind', str(run['unwind']), '--unwinding-assertions']
    for lk, lv in (run.get('unwindset') or {}).items():
        flags += ['--unwindset', '%s:%d' % (lk, lv)]
    if run.get('unwindset'):
        flags += ['--unwinding-assertions']
    solver = os.environ.get('VERIF_SOLVER') or run.get('solver', '')
    if solver == 'kissat':
        flags += ['--external-sat-solver', 'kissat']
    elif solver in ('cvc5', 'z3'):
        flags += ['--' + solver]
    gi = []
    if run.get('enforce'):
        gi = ['--dfcc', entry, '--enforce-contract', run['enforce']]
        for g in run.get('replace', []):
            gi += ['--replace-call-with-contract', g]
        if run.get('loops'):
            gi += ['--apply-loop-contracts']
    elif run.get('loops'):
        gi = ['--apply-loop-contracts']
    gi += run.get('gi_flags', [])
    key = hashlib.sha256()
    key.update(pp.encode())
    key.update(json.dumps([entry, flags, gi, tool_versions(), want_trace, only_props, SELF_HASH], sort_keys=True).encode())
    keyhex = key.hexdigest()
    cfile = os.path.join(CACHE, keyhex + '.json')
    if not nocache and os.path.exists(cfile):
        res = json.load(open(cfile))
        res['cached'] = True
        return res
    res = dict(unit=unit['name'], run=rid, entry=entry, enforce=run.get('enforce'), replace=run.get('replace', []),
               backend='dfcc' if run.get('enforce') else 'harness', solver=solver or 'minisat(default)', flags=flags, gi=gi,
               props=run['props'], tier=run.get('tier', 'quick'), key=keyhex, cached=False,
               bounded=run.get('bounded'), status='ok', obligations=[])
    tmo = run.get('timeout', 600 if tier == 'quick' else 1800)
    if os.environ.get('VERIF_TIMEOUT'):
        tmo = int(os.environ['VERIF_TIMEOUT'])
    a = os.path.join(rdir, 'a.gb')
    b = os.path.join(rdir, 'b.gb')
    rc, out, err, dt = sh(['goto-cc'] + defs + incs + ['--function', entry, main_c, '-o', a], 120)
    if rc != 0:
        res.update(status='infra', reason='goto-cc failed: ' + (err + out)[-3000:])
        return res
    cc_warn = [l for l in (err + out).splitlines() if 'warning' in l.lower()]
    binf = a
    t_gi = 0.0
    if gi:
        rc, out, err, t_gi = sh(['goto-instrument'] + gi + [a, b], tmo)
        if rc != 0:
            res.update(status='infra', reason='goto-instrument failed: ' + (err + out)[-3000:])
            return res
        binf = b
    cmd = ['cbmc', binf, '--json-ui', '--drop-unused-functions'] + flags + (['--trace'] if want_trace else [])
    for pid_ in (only_props or []):
        cmd += ['--property', pid_]
    if not gi:
        cmd += ['--function', entry]
    rc, out, err, t_cbmc = sh(cmd, tmo, tmpdir=os.path.dirname(a))
    res['cmd'] = ' '.join(['goto-cc'] + defs + ['--function', entry, 'main.c', '-o', 'a.gb', '&&'] + (['goto-instrument'] + gi + ['a.gb', 'b.gb', '&&'] if gi else []) + ['cbmc', 'b.gb' if gi else 'a.gb'] + flags)
    res['time_instrument_s'] = round(t_gi, 2)
    res['time_cbmc_s'] = round(t_cbmc, 2)
    if rc == -9:
        res.update(status='infra', reason='cbmc timeout after %ds' % tmo)
        return res
    try:
        js = json.loads(out)
    except Exception:
        res.update(status='infra', reason='cbmc output not json (rc=%s): %s' % (rc, (err + out)[-2000:]))
        return res
    results = None
    msgs = []
    for item in js:
        if isinstance(item, dict):
            if 'result' in item:
                results = item['result']
            if item.get('messageType') in ('ERROR',):
                msgs.append(item.get('messageText', ''))
            if item.get('messageType') == 'WARNING' and 'ignoring' in item.get('messageText', ''):
                msgs.append('WARNING ' + item.get('messageText', ''))
    if results is None:
        res.update(status='infra', reason='cbmc produced no result (rc=%s): %s' % (rc, ' | '.join(msgs)[-2000:] or (err + out)[-2000:]))
        return res
    if any(m.startswith('WARNING') for m in msgs):
        res.update(status='infra', reason='quantifier ignored by back end: ' + ' | '.join(msgs)[:500])
        return res
    obl = []
    for r in results:
        fn_ = r.get('sourceLocation', {}).get('function', '') or ''
        if fn_.startswith('h_') and fn_ != entry:
            continue  # other harnesses of the same translation unit
        if 'arithmetic overflow on signed shl' in (r.get('description') or ''):
            res.setdefault('dropped_cxx_defined', []).append(r.get('property'))
            continue  # defined behaviour in C++14 and later ([expr.shift]) for values representable in the unsigned type
        kind, cls = classify(r.get('property', ''), r.get('description', ''))
        sl = r.get('sourceLocation', {})
        o = dict(id=r.get('property'), desc=r.get('description'), status=r.get('status'), kind=kind, cls=cls,
                 file=sl.get('file'), line=sl.get('line'), function=sl.get('function'))
        if want_trace and r.get('status') == 'FAILURE' and 'trace' in r:
            o['trace'] = compact_trace(r['trace'])
        obl.append(o)
    res['obligations'] = obl
    res['wall_s'] = round(time.time() - t_start, 2)
    res['cc_warnings'] = cc_warn[:5]
    os.makedirs(CACHE, exist_ok=True)
    tmp = cfile + '.tmp%d' % os.getpid()
    json.dump(res, open(tmp, 'w'))
    os.replace(tmp, cfile)
    return res


def render_value(v, depth=0):
    """CBMC json value -> python value (structs as dicts, arrays abbreviated to the first 24 elements)"""
    if not isinstance(v, dict):
        return v
    if 'members' in v:
        return {m.get('name'): render_value(m.get('value'), depth + 1) for m in v['members'] if not str(m.get('name', '')).startswith('$pad')}
    if 'elements' in v:
        els = [render_value(e.get('value'), depth + 1) for e in v['elements'][:24]]
        if len(v['elements']) > 24:
            els.append('... %d more' % (len(v['elements']) - 24))
        return els
    d = v.get('data', v.get('name'))
    return d


def compact_trace(trace):
    """keep assignments to harness/ghost variables and function call/returns"""
    out = []
    for st in trace:
        ty = st.get('stepType')
        if st.get('hidden'):
            continue
        if ty == 'assignment':
            lhs = st.get('lhs', '')
            if lhs.startswith('__CPROVER') or 'dfcc' in lhs or lhs.startswith('return_value___CPROVER'):
                continue
            v = st.get('value', {})
            val = render_value(v)
            sl = st.get('sourceLocation', {})
            out.append(dict(lhs=lhs, value=val, fn=sl.get('function'), line=sl.get('line'), file=os.path.basename(sl.get('file', ''))))
        elif ty in ('function-call', 'function-return'):
            fn = st.get('function', {}).get('displayName')
            if fn and not fn.startswith('__CPROVER'):
                out.append(dict(step=ty, fn=fn))
        elif ty == 'failure':
            out.append(dict(step='failure', reason=st.get('reason'), property=st.get('property')))
    head = [x for x in out[:-400] if 'lhs' in x and x.get('fn') and x['fn'].startswith('h_')]
    return head + out[-400:]


def select_runs(units, prop, tier):
    sel = []
    for u in units:
        for run in u['runs']:
            if prop is not None and prop not in run['props']:
                continue
            rt = run.get('tier', 'quick')
            if tier == 'quick' and rt != 'quick':
                continue
            sel.append((u, run))
    return sel


def run_many(sel, tier, nocache=False, jobs=None, log=print):
    """extract each unit once, then run in parallel"""
    ex = {}
    results = []
    errors = []
    for u, run in sel:
        if u['name'] not in ex:
            try:
                ex[u['name']] = extract_unit(u)
            except cxx2c.ExtractError as e:
                ex[u['name']] = e
    jobs = jobs or int(os.environ.get('VERIF_JOBS', '14'))

    def work(item):
        u, run = item
        e = ex[u['name']]
        if isinstance(e, Exception):
            return dict(unit=u['name'], run=run['id'], props=run['props'], status='infra', reason='extraction: %s' % e, obligations=[])
        try:
            return run_one(u, run, e, tier, nocache=nocache)
        except InfraError as ie:
            return dict(unit=u['name'], run=run['id'], props=run['props'], status='infra', reason=str(ie), obligations=[])
        except Exception as ex2:
            return dict(unit=u['name'], run=run['id'], props=run['props'], status='infra', reason='runner exception: ' + traceback.format_exc()[-1500:], obligations=[])

    # longest first
    order = sorted(sel, key=lambda x: -x[1].get('cost', 10))
    with ThreadPoolExecutor(max_workers=jobs) as pool:
        for r in pool.map(work, order):
            results.append(r)
    return results, ex
