#!/bin/bash
# seed_confirm.sh <wt-dir> <seed-id> <property>: confirm a sub-agent's seeded change (tests pass with it, demo fails with it and passes without),
# store it under /verif/seeded/<seed-id>/ and run the property's quick check against a scratch copy with the change
wt=$1; id=$2; prop=$3
out=/verif/seeded/$id; mkdir -p $out
cd $wt || exit 2
git diff -- src > $out/patch.diff
[ -s $out/patch.diff ] || { echo "empty patch"; exit 2; }
cp seed/demo.cpp seed/build_demo.sh seed/notes.txt $out/ 2>/dev/null
log=$out/confirm.log; : > $log
(cmake -G Ninja -B _build -DCMAKE_BUILD_TYPE=RelWithDebInfo -DBUILD_TESTING=ON >/dev/null 2>&1; cmake --build _build -j8 >/dev/null 2>&1 && ctest --test-dir _build -j8 --timeout 900 2>&1 | tail -3) > /tmp/seed_tests.$$ 2>&1
tests_ok=$(grep -c "100% tests passed" /tmp/seed_tests.$$); cat /tmp/seed_tests.$$ >> $log
bash seed/build_demo.sh > /tmp/seed_demo_with.$$ 2>&1; with=$?
git apply -R $out/patch.diff
bash seed/build_demo.sh > /tmp/seed_demo_without.$$ 2>&1; without=$?
git apply $out/patch.diff
echo "tests_pass_with_change=$tests_ok demo_exit_with_change=$with demo_exit_without_change=$without" | tee -a $log
tail -5 /tmp/seed_demo_with.$$ >> $log
# run the check against a scratch copy of the sources with the change
# (the current /repo sources with the change applied; falls back to the worktree's sources if the patch does not apply any more)
d=$(mktemp -d /tmp/seedXXXX); mkdir -p $d/src; cp -r /repo/src/lib /repo/src/ebusd $d/src/
if ! (cd $d && patch -p1 -s < $out/patch.diff) >/dev/null 2>&1; then rm -rf $d/src; mkdir -p $d/src; cp -r $wt/src/lib $wt/src/ebusd $d/src/; echo "patch applied to the worktree base only" | tee -a $log; fi
cd /verif; VERIF_REPO=$d ./check $prop quick > /tmp/seed_check.$$ 2>&1; rc=$?
grep -v "^INFRA" /tmp/seed_check.$$ | sed "s#$d#SCRATCH#g" | cut -c1-300 | tail -6 | tee -a $log
echo "check_exit=$rc" | tee -a $log
rm -rf $d /tmp/seed_*.$$
