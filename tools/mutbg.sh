#!/bin/bash
# mutbg.sh <name> <prop> <sed-expr> <file-rel> : background mutant run, result in /tmp/mutlog/<name>.log
name=$1; prop=$2; expr=$3; file=$4
mkdir -p /tmp/mutlog
(
d=$(mktemp -d /tmp/mutXXXX)
mkdir -p $d/src; cp -r /repo/src/lib /repo/src/ebusd $d/src/
sed -i -E "$expr" $d/$file
if diff -q /repo/$file $d/$file >/dev/null; then echo "MUTATION DID NOT APPLY"; rm -rf $d; exit 3; fi
cd /verif; VERIF_REPO=$d ./check $prop quick | grep -v "^INFRA" | sed "s#$d#SCRATCH#g" | cut -c1-260
rm -rf $d
) > /tmp/mutlog/$name.log 2>&1 &
