"""native replay: compile replay/<unit>.cpp against the real sources of the repository and run it"""
import os, subprocess, hashlib, re, json

CFG_DEFS = ['-DHAVE_DIRECT_FLOAT_FORMAT=1', '-DHAVE_CONTRIB', '-DHAVE_PPOLL', '-DHAVE_PSELECT', '-DHAVE_TIME_H', '-DHAVE_TIMEGM',
            '-DPACKAGE="ebusd"', '-DPACKAGE_STRING="ebusd"', '-DPACKAGE_VERSION="0"', '-DSCAN_VERSION="0"', '-DPACKAGE_NAME="ebusd"',
            '-DREVISION="x"', '-DPACKAGE_VERSION_MAJOR=0', '-DPACKAGE_VERSION_MINOR=0', '-DHAVE_SYSLOG_H']


def build(unit_name, sources, repo, verif, extra=()):
    wd = os.path.join(verif, '.work', 'bin')
    os.makedirs(wd, exist_ok=True)
    drv = os.path.join(verif, 'replay', unit_name + '.cpp')
    srcs = [os.path.join(repo, s) for s in sources]
    h = hashlib.sha256()
    for p in [drv] + srcs:
        h.update(open(p, 'rb').read())
    # headers matter too
    for root in ('src/lib/ebus', 'src/lib/utils'):
        d = os.path.join(repo, root)
        for fn in sorted(os.listdir(d)):
            if fn.endswith('.h'):
                h.update(open(os.path.join(d, fn), 'rb').read())
    exe = os.path.join(wd, 'replay_' + unit_name + '_' + h.hexdigest()[:12])
    if not os.path.exists(exe):
        cmd = ['g++', '-std=c++17', '-O1', '-w', '-fno-access-control', '-DEBUSD_VERIF', '-DVERIF_NATIVE', '-D_Bool=bool'] + CFG_DEFS + list(extra) + [
            '-I', os.path.join(repo, 'src'), '-I', os.path.join(verif, 'units', unit_name), '-I', os.path.join(verif, 'model'),
            drv] + srcs + ['-o', exe, '-lpthread']
        tmp = exe + '.tmp%d' % os.getpid()
        cmd[cmd.index('-o') + 1] = tmp
        p = subprocess.run(cmd, capture_output=True, text=True, timeout=600)
        if p.returncode != 0:
            raise RuntimeError('replay driver build failed: ' + p.stderr[-1500:])
        os.replace(tmp, exe)
    return exe


def run(exe, args, timeout=300):
    p = subprocess.run([exe] + [str(a) for a in args], capture_output=True, text=True, timeout=timeout)
    out = '\n'.join(l for l in p.stdout.splitlines() if l.startswith(('REPRODUCED', 'NOT-REPRODUCED', 'INFO')))
    m = re.search(r'^REPRODUCED: (.*)$', out, re.M)
    if m:
        return dict(reproduced=True, failing_input=m.group(1), driver_output=out[-3000:], driver_cmd=' '.join([os.path.basename(exe)] + [str(a) for a in args]))
    return dict(reproduced=False, reason='native driver found no failing input (hint + battery): ' + out[-500:].strip(), driver_cmd=' '.join([os.path.basename(exe)] + [str(a) for a in args]))


def num(v, default=0):
    """parse a CBMC trace value like '170', '3ul', '0x1f', 'TRUE'"""
    if v is None:
        return default
    if isinstance(v, bool):
        return int(v)
    s = str(v).strip()
    m = re.match(r'^(-?\d+)', s)
    if m:
        return int(m.group(1))
    if s.lower() in ('true',):
        return 1
    if s.lower() in ('false',):
        return 0
    return default


def trace_vals(rp, names):
    """last value assigned to each of the named variables anywhere in the trace"""
    out = {}
    for st in rp.get('trace') or []:
        if st.get('lhs') in names:
            out[st['lhs']] = st.get('value')
    return out
