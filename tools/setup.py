#!/usr/bin/env python3
"""setup: check tools are present, create work dirs. Everything else is rebuilt by each check run."""
import shutil, sys, os, subprocess
for t in ('cbmc', 'goto-cc', 'goto-instrument', 'gcc', 'g++'):
    if not shutil.which(t):
        print('missing tool', t); sys.exit(1)
here = os.path.dirname(os.path.dirname(os.path.abspath(__file__)))
for d in ('.work', '.cache', 'replays', 'evidence'):
    os.makedirs(os.path.join(here, d), exist_ok=True)
print(subprocess.run(['cbmc', '--version'], capture_output=True, text=True).stdout.strip())
print('setup ok')
