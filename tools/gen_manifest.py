#!/usr/bin/env python3
"""regenerates MANIFEST.json from the table below (kept here so that the file stays schema-valid)"""
import json, os
HERE = os.path.dirname(os.path.dirname(os.path.abspath(__file__)))

TB = ("Trusted: CBMC 6.11 (C front end, DFCC instrumentation, SAT back end); the extraction rules R1-R15 (tools/cxx2c.py) that turn the real C++ "
      "function bodies into C on every run; C models of the libc / libstdc++ pieces the bodies call (model/*.h); ")

CHECKS = {
 'C11': dict(
   technique='CBMC function contracts (goto-instrument --dfcc) + loop contracts on functions extracted from symbol.cpp / symbol.h',
   level='proof',
   text='updateCrc proved equal to bitwise polynomial division for all 65536 (crc,value) pairs; calcCrc proved to be the fold of that step over the escaped sequence for every length (loop contract); address predicates proved equal to set-theoretic specs for all 256 addresses plus bijection lemmas; parseHexEscaped/parseHex proved in lock-step with a reference unescape acceptor for every length (loop contract).',
   note=TB + 'strtoul model (two hex digits -> byte); fixed-capacity vector/string models (capacity obligations asserted).',
   ref='DESIGN.md 5 (C11)'),
 'C15': dict(
   technique='CBMC function contracts (DFCC) on createAnswerKey / setAnswer / getAnswer with the answer map abstracted by uninterpreted functions',
   level='proof',
   text='createAnswerKey proved equal to an injective packing function; setAnswer proved to accept exactly the documented registrations and to store under that key; getAnswer proved to return exactly the registered answer with the longest matching id prefix (source-specific before any-source) for every telegram incl. every NN 0..255. The slave-role wire states are covered by the handler unit where built.',
   note=TB + 'std::map modelled by uninterpreted functions of the key; SymbolString accessor contracts (enforced in unit symbol). Not decided: registration call sites in mainloop.cpp/main.cpp/bushandler.cpp.',
   ref='DESIGN.md 5 (C15)'),
}

NOT_APPLICABLE = {
}
NOT_YET = ['C01', 'C02', 'C03', 'C04', 'C05', 'C06', 'C07', 'C08', 'C09', 'C10', 'C12', 'C13', 'C14', 'C16', 'C17', 'C18', 'C19', 'C20']


def main():
    checks = []
    for pid in sorted(CHECKS):
        c = CHECKS[pid]
        checks.append(dict(property_id=pid, quick_cmd='./check %s quick' % pid, thorough_cmd='./check %s thorough' % pid,
                           evidence_file='evidence/%s.json' % pid, replay_cmd_template='./check --replay {path}', engine='cbmc-contracts',
                           technique=c['technique'], level_claimed=dict(category=c['level'], text=c['text'], design_ref=c['ref']), level_note=c['note']))
    na = [dict(property_id=p, reason=r) for p, r in sorted(NOT_APPLICABLE.items())]
    for p in NOT_YET:
        if p not in CHECKS and p not in NOT_APPLICABLE:
            na.append(dict(property_id=p, reason='not claimed yet: contracts for this property are not built in this revision (see DESIGN.md build order)'))
    man = dict(
        version=1,
        setup_cmd='python3 tools/setup.py',
        hooks=dict(guard='EBUSD_VERIF',
                   enable='no source hook exists: the verified text is extracted from /repo sources on every run; native replay drivers are compiled with g++ -fno-access-control -DEBUSD_VERIF against /repo sources',
                   baseline_off_cmd='cmake --build /repo/_build && ctest --test-dir /repo/_build -j8 --timeout 900',
                   source_commits=[], add_only=True),
        engines=[dict(name='cbmc-contracts', path='tools/', serves_properties=sorted(CHECKS),
                      kind_free_text='mechanical C++->C extraction of the real functions on every run + CBMC code contracts (goto-instrument --dfcc, loop contracts) discharged by cbmc; native replay of counterexamples against the real C++ objects')],
        checks=checks,
        notes='Entry point ./check <Cxx> quick|thorough; exit 0 held, 1 VIOLATION, 2 infrastructure. KNOWN_FINDINGS.txt lists fixed defects and known findings.',
        not_applicable=na)
    json.dump(man, open(os.path.join(HERE, 'MANIFEST.json'), 'w'), indent=1)


if __name__ == '__main__':
    main()
