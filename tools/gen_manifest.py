#!/usr/bin/env python3
"""regenerates MANIFEST.json from the table below (kept here so that the file stays schema-valid)"""
import json, os
HERE = os.path.dirname(os.path.dirname(os.path.abspath(__file__)))

TB = ("Trusted: CBMC 6.11 (C front end, DFCC instrumentation, SAT back end); the extraction rules R1-R15 (tools/cxx2c.py) that turn the real C++ "
      "function bodies into C on every run; C models of the libc / libstdc++ pieces the bodies call (model/*.h); ")

CHECKS = {
 'C11': dict(
   technique='CBMC function contracts (goto-instrument --dfcc) + loop contracts on functions extracted from symbol.cpp / symbol.h',
   level='proof',
   text='updateCrc proved equal to bitwise polynomial division for all 65536 (crc,value) pairs; calcCrc proved to be the fold of that step over the escaped sequence for every length (loop contract); address predicates proved equal to set-theoretic specs for all 256 addresses plus bijection lemmas; parseHexEscaped/parseHex proved in lock-step with a reference unescape acceptor for every length (loop contract).',
   note=TB + 'strtoul model (two hex digits -> byte); fixed-capacity vector/string models (capacity obligations asserted).',
   ref='DESIGN.md 5 (C11)'),
 'C15': dict(
   technique='CBMC function contracts (DFCC) on createAnswerKey / setAnswer / getAnswer with the answer map abstracted by uninterpreted functions',
   level='proof',
   text='createAnswerKey proved equal to an injective packing function; setAnswer proved to accept exactly the documented registrations and to store under that key; getAnswer proved to return exactly the registered answer with the longest matching id prefix (source-specific before any-source) for every telegram incl. every NN 0..255. The slave-role wire states are covered by the handler unit where built.',
   note=TB + 'std::map modelled by uninterpreted functions of the key; SymbolString accessor contracts (enforced in unit symbol). Not decided: registration call sites in mainloop.cpp/main.cpp/bushandler.cpp.',
   ref='DESIGN.md 5 (C15)'),
}

CHECKS.update({
 'C07': dict(
   technique='CBMC contracts on NumberDataType::parseInput / checkValueRange (DFCC and harness-enforced per divisor) with strtol/strtoul/strtod as ghost-reading environment stubs',
   level='proof',
   text='parseInput proved, for every numeric type shape (width 1..32 bit, signed/unsigned, BCD/FIX, REQ) and every mathematical reading of the text (128-bit magnitude, sign, parse end, ERANGE), to accept exactly the well-formed in-range numbers and to encode them exactly; fixed-point paths proved per divisor (quick tier: 10, 256, 1000 and the multiplier 10; thorough tier: 2, 16, 256, 10^1..10^7 and the multipliers 10^1..10^5; larger divisors and multipliers did not finish reliably and are not claimed) incl. NaN/inf/overflow; date/time texts (unit datetime): encoded iff every component is in range, the bytes decode to the requested components; NumberDataType::derive: the combined divisor is the mathematical product or the definition is rejected, a derived type is a valid type shape again (per built-in base divisor), and every built-in number type is a valid type shape (generated table); checkValueRange proved equal to the two\'s-complement / IEEE range predicate for all raw values.',
   note=TB + 'strtol/strtoul/strtod are trusted stubs returning the clamp of a ghost reading (ISO C 7.22.1); exp2 of integral arguments exact. Value lists: ValueListDataField::writeSymbols is under contract in unit valuelist (a text is encoded iff it is a name of the list or a number text denoting a listed value without truncation; else rejected, nothing written). floatToUint16 (KNX): every float in (-700000, 700000) is encoded within one resolution step or as the invalid value if beyond the range, without undefined behaviour. Not decided: DataField::create range parsing (min/max of derived fields); hex/blank/exponent syntax of the C library.',
   ref='DESIGN.md 5 (C07)'),
 'C12': dict(
   technique='CBMC contracts: frame (assigns) clauses of the codec functions and errno-independence postcondition of parseInput; stream-state independence of the number / date / time / string / value list decoders with the ostream as a token model whose initial state is nondeterministic',
   level='proof',
   text='parseInput proved to return the same verdict whatever errno held on entry (completeness postcondition quantifies over errno) and to consult the C library at most once; codec functions under contract write only their out-parameters (assigns clauses checked by DFCC or whole-object frame assertions). Stream state: NumberDataType::readFromRawValue, DateTimeDataType::readSymbols, StringDataType::readSymbols and ValueListDataField::readSymbols are proved to print every number in the base, width, fill, fixed flag and precision the type asks for, for an arbitrary state (base, width, fill, fixed flag, precision) left on the stream by earlier output, and to leave no field width behind.',
   note=TB + 'Stream model: rule R11 token stream (the characters libstdc++ prints for a token in a given state are trusted). Not decided: derived-type cache transparency, load-order independence of MessageMap (whole-loader property).',
   ref='DESIGN.md 5 (C12)'),
})

CHECKS.update({
 'C05': dict(
   technique='CBMC contracts on NumberDataType::readRawValue / checkValueRange against an independent type specification (DFCC; multi-byte BCD harness-enforced per flag word); harness-enforced contracts of DateTimeDataType::readSymbols and NumberDataType::readFromRawValue (output as token stream, float multiplication/division by the divisor as uninterpreted functions) against a Gregorian calendar specification for every built-in date/time type of the mechanically extracted type table',
   level='proof',
   text='readRawValue proved equal to the specified raw decoding (little/big endian, BCD/HCD digit validity, bit ranges, replacement) for every byte pattern, offset and every valid numeric type shape of 1..4 bytes; checkValueRange proved equal to the signed/unsigned/IEEE range predicate; calcPrecision proved. DateTimeDataType::readSymbols proved for all byte patterns of DAY (every day count = the calendar date that many days after 01.01.1900, ff ff = null), DTM (every minute count up to 31.12.2099 23:59 = calendar date and time, beyond rejected), MIN, TTM/TTH/TTQ, BTI/HTI/VTI/BTM/HTM/VTM (components in display order, BCD digit check, 24:00:00 limit) and BDA/HDA dates (day/month/year range), with the output as a token sequence (separators, numbers with width 2 / zero fill, decimal mode whatever the stream state was). StringDataType::readSymbols proved for 4 byte strings (hex: one zero-filled two-digit hex group per byte in storage / reverse order separated by blanks; characters: up to the NUL terminator, control characters as the replacement character, non-printable bytes as ?). NumberDataType::readFromRawValue (text rendering) proved for every valid type shape and raw value: replacement -> null (- / JSON null), out-of-range / non-finite -> error and no output, otherwise exactly one number token: the signed/unsigned integer (fixed-width BCD zero padded to 2 digits per byte), value * multiplier in fixed notation without fraction, value / divisor in fixed notation with the type precision, IEEE values with precision+6; the stream state is reset first so that the result does not depend on earlier output. ValueListDataField::readSymbols: a listed value is shown as its name, the replacement as null, any other value as its number. uint16ToFloat (KNX DPT 9): every pattern decodes to 0.01 * mantissa * 2^exponent within float precision, 7fff to no value.',
   note=TB + 'Not decided in this revision: text rendering of numbers (readFromRawValue token stream, libstdc++ number formatting is trusted anyway), partially null dates/times, weekday names, string types, value lists, KNX float, JSON format.',
   ref='DESIGN.md 5 (C05)'),
 'C06': dict(
   technique='CBMC contracts on NumberDataType::writeRawValue (harness-enforced, whole-string frame) + round-trip lemma over the read/write specification functions; decode-then-encode round trip of the extracted DateTimeDataType::readSymbols / writeSymbols for every built-in date/time type; ValueListDataField::writeSymbols against a name/number lookup specification',
   level='proof',
   text='writeRawValue proved to write exactly the specified bytes, OR-ing bit fields into an existing byte, leaving every other byte of the output unchanged; lemma: encode(decode(bytes)) reproduces the owned bits for every decodable pattern of every valid numeric type shape, null encodes to the canonical replacement pattern; parseInput (C07) gives the text leg for integers. Date/time types: for every byte pattern of BTI/HTI/VTI/BTM/HTM/VTM/MIN/TTM/TTH/TTQ/BDA/BDA:3/HDA/HDA:3/BDZ/DAY (DTM in the thorough tier) that decodes (completely non-null or completely null), encoding the decoded text succeeds, has the type length and reproduces the bytes on the bits the type owns; the null value encodes to the replacement pattern; the weekday byte is regenerated as the calendar weekday. Value lists: a name encodes to its value (names are looked up before numbers), a listed number to itself. KNX 16 bit float (thorough tier): every pattern except 7fff and f800 is a fixed point of decode-encode-decode. Strings (StringDataType::readSymbols / writeSymbols, 4 bytes): the hex text a byte pattern decodes to re-encodes to the same bytes; a printable text padded with the replacement character round-trips; an arbitrary hex text of up to 8 characters is encoded group by group (missing groups: replacement) or rejected if a group is incomplete or no hex.',
   note=TB + 'Harness-enforced (B2) runs check pre/post but not a DFCC assigns clause; the frame is asserted explicitly over the whole output string. Not decided: float text leg (print/parse identity of libstdc++/libc), date/time/string types.',
   ref='DESIGN.md 5 (C06)'),
 'C10': dict(
   technique='CBMC contracts: per-field locality of NumberDataType::readRawValue / writeRawValue (owned bytes and bit mask, whole-string frame); DataFieldSet::getLength/read/read/write + SingleDataField::hasFullByteOffset offset bookkeeping harness-enforced (bounded stand-in: up to 8 / 12 fields)',
   level='proof',
   text='Field-level part of C10: a numeric field reads only its own bytes at (offset, length), writes only those bytes, a bit field only ORs its owned bits into an already existing byte; proved for all offsets and type shapes. The offset bookkeeping of DataFieldSet (getLength, both read variants, write) is checked on the extracted loops for every set of up to 8 fields (12 in thorough): all four visit each field of the part exactly once at the same offset, fields follow each other without gaps, only a bit field shares the byte of the preceding bit field (and does when that byte is incomplete and it starts at another bit), the length is the number of bytes spanned. This part is a bounded stand-in and not counted as proved.',
   note=TB + 'Field-set part bounded by the number of fields (8 quick, 12 thorough; MAX_POS is 24); SingleDataField::read/write are stubs recording their offset (their locality is the per-field part). Not pinned down: whether a byte stays open after two consecutive bit fields with the same first bit (the code closes it). Date/time/string types only via their length.',
   ref='DESIGN.md 5 (C10)'),
 'C09': dict(
   technique='bounded CBMC check (harness-enforced contracts) of the extracted Message::prepareMaster / prepareMasterPart / prepareSlave / storeLastData / checkId and ChainedMessage::checkId / prepareMasterPart / storeLastData / combineLastParts + SymbolString::compareTo against a byte-level telegram specification, DataField::write as a stub',
   level='other',
   text='BOUNDED, partial: for every definition with up to 6 further id bytes and up to 12 encoded data bytes the built telegram is proved to be QQ ZZ PB SB NN id data with NN = number of following bytes, to be built whenever the definition is active and the field input accepted, to pass the exact id check of its definition and to be the stored last master data; prepareSlave/storeLastData store exactly the given parts and move the change time iff the data changed. For chains of 2..3 parts: part i carries the id of part i and the bytes [sum of lengths before i, +length i) of the encoded data, is identified back as that part and stored; storing a received part (any arrival order) files it under the part whose id it carries, and once all parts are present in time the joined master/slave value is the concatenation of the part data in part order (checked per byte: no loss, duplication, reordering), NN adjusted. Message::decodeLastData reads the master fields from the stored master part behind the id bytes and the slave fields from the stored slave part at data offset 0 (the positions where prepareMasterPart / prepareSlave placed them), counting a field index over the master fields first. Definition parsing (Message::create incl. the data length limit) and the field decoding itself (DataFieldSet::read; see C05/C10) are not part of this check.',
   note=TB + 'bounded by the model capacities (ids <= 6 further bytes, data <= 12 bytes, chains <= 3 parts with <= 3 data / 4 slave bytes per part; quick tier 2 parts); DataField::write is a stub appending a ghost byte array at the data offset it is given (growing with zeros like SymbolString::dataAt); chain well-formedness (equal id lengths, common id a prefix of every part id, one length per part, never passive) is proved for the chain id parsing fragment of Message::create (rule R16; string handling, parseId and parseInt as stubs); that the part ids differ after the common prefix (no two identical part ids) remains an assumption; stored parts with an arrival time carry the complete id (invariant, shown preserved).',
   ref='DESIGN.md I.2 (C09)'),
 'C19': dict(
   technique='bounded CBMC check (harness-enforced contract) of the extracted AttributedItem::dumpString, FileReader::splitFields and FileReader::trim: write-then-read round trip of field texts over the full character set',
   level='other',
   text='BOUNDED, partial: every field text of up to 5 characters (two fields: up to 3 characters each) without line breaks and surrounding blanks, written with dumpString (quoting of separators and quotes) and read back with splitFields, yields exactly the same field list, the line is read as one line (a following line is never swallowed), for the full character set including field separators, value separators and single/doubled/leading/trailing quotes. The column mapping (MappedFileReader, MessageMap::getFieldMap/addFromFile), the definition writers (Message::dump, DataField::dump, DataType::dump) and therefore the whole-definition round trip are NOT decided. One dump writer is under contract: ChainedMessage::dumpField writes the id column of a chained definition as id bytes in two hex digits, : and the part length in decimal (the base Message::create reads it back with), parts separated by ; - for every stream format state on entry (chains of up to 3 parts).',
   note=TB + 'bounded string model (line capacity 12 / 18 characters, unwinding assertions); std::string/ostringstream/istream/vector<string> are value models; lines starting with # or // (comment lines) and empty lines are excluded as first field; multi-line quoted fields are not generated by dumpString and are not covered.',
   ref='DESIGN.md I.2 (C19)'),
 'C20': dict(
   technique='CBMC safety obligations (bounds, pointer, shift distance, signed overflow, division by zero, unwinding) on every extracted function under arbitrary-input preconditions',
   level='proof',
   text='Every function under contract is also checked for out-of-bounds access, invalid pointer use, undefined shift distance, signed overflow, division by zero and termination (loop variants / unwinding assertions) for arbitrary inputs within the stated preconditions.',
   note=TB + 'Signed left-shift overflow checks are dropped (defined in C++14 and later). Functions not extracted (command handlers, CSV loaders, std:: containers) are not covered; leaks and uncaught exceptions are outside CBMC-in-C.',
   ref='DESIGN.md 5 (C20)'),
})

CHECKS.update({
 'C01': dict(
   technique='harness-enforced step contracts (CBMC) on handleReceive/handleSend/setState/messageCompleted: one-step simulation against a reference telegram recogniser, inductive over calls',
   level='proof',
   text='From every handler state satisfying the invariant and the simulation relation with an independent telegram recogniser (phases, unescaping, CRC over escaped bytes, NAK-repeat, address checks; buffers compared byte-wise), one call of the real handleReceive/handleSend re-establishes both, and notifyProtocolMessage is called exactly when the recogniser accepts a telegram, with equal bytes. By induction over the calls made by run() this covers byte streams of every length, every corruption position and every chunking; any received SYN leads to the ready state.',
   note=TB + 'Back end B2 (assume/assert harness, no DFCC frame); Device/Queue/BusRequest/Listener/clock are environment stubs; device verdict timing contract (verdict only with the first symbol after SYN, with SYN, or with an error) and the exclusion of read-only+answer configuration are stated assumptions; devices themselves: C14. NN is unrestricted (0..255).',
   ref='DESIGN.md 5 (C01)'),
 'C02': dict(
   technique='harness-enforced step contracts (CBMC): wire-format obligations as preconditions of the Device::send stub, completion verdict as precondition of BusRequest::notify',
   level='proof',
   text='In every state of an own transfer the symbol handed to Device::send is proved to be the next escaped master byte / the escaped CRC of the echoed bytes / ACK iff the response CRC is right else NAK / the final SYN; the request is completed with OK iff the recogniser accepted the exchange in that step, carrying the bytes seen on the bus; inductive over steps as for C01. ProtocolHandler::sendAndWait (unit sendwait): submits at least once and at most 1 + failedSendRetries times, repeats only after a failed exchange worth repeating (not after success / no signal / send / device errors), resets the bus-lost retry counter for every new attempt and returns the result of the last exchange.',
   note=TB + 'B2 back end; addRequest(wait) / Queue blocking and the bus thread are an environment stub of sendAndWait (each submission is completed once with an arbitrary result); requests are assumed well-formed (complete, master source, not self-addressed).',
   ref='DESIGN.md 5 (C02)'),
 'C03': dict(
   technique='harness-enforced step contracts (CBMC): entitlement as precondition of the Device::send / Device::startArbitration stubs, discharged at every call site under the handler invariant',
   level='proof',
   text='Every call of Device::send is proved to happen only (b) as echo-verified continuation of a won telegram, (c) as acknowledge/response while answering, or (d) as SYN after a receive timeout of at least the SYN generation interval, never in read-only mode and never before the previous symbol was echoed; Device::startArbitration only for a pending request with its own source address while the lock counter is 0 and no telegram runs.',
   note=TB + 'B2 back end; (a) the arbitration byte itself is written by the device (C14 unit when built); "silent for the interval" is the trusted meaning of a receive timeout; lock counter arithmetic after lost arbitration is covered by the simulation only as far as it gates startArbitration.',
   ref='DESIGN.md 5 (C03)'),
 'C04': dict(
   technique='harness-enforced step contracts (CBMC) with a ghost life cycle per request (queued/current/finished/deleted) carried by the Queue/BusRequest stubs',
   level='proof',
   text='Sequential ownership discipline: in every step a request is completed only while it is the current one and at most once per submission, re-queued only before completion or when its completion asks for a restart, deleted or handed to its waiter exactly once after completion, never read after that, and no request is left current without being referenced (no loss). Restart decisions (unit scanreq): PollRequest::notify asks for a restart only after a successful exchange for the next part of a chained message with its telegram prepared; ScanRequest::notify never restarts on signal loss, every restart strictly decreases a progress measure (slaves left, messages left, generic->specific scan message, parts left) so a scan ends after finitely many restarts, and a scan request that does not restart reports the scan as finished exactly once. ProtocolHandler::sendAndWait retry policy: unit sendwait.',
   note=TB + 'NOT decided: thread schedules (Queue critical sections are trusted atomic), liveness of the bus thread itself ("eventually"), the blocking wait in addRequest; drain loop on signal loss checked for queues up to 2 pending requests (bounded).',
   ref='DESIGN.md 5 (C04)'),
})

CHECKS.update({
 'C14': dict(
   technique='harness-enforced contracts (CBMC): EnhancedDevice::handleEnhancedBufferedData against a reference decoder written from docs/enhanced_proto.md; request encoders, PlainDevice::recv and FileTransport::read/readConsumed against stream contracts',
   level='other',
   text='PROOF for the encoders, PlainDevice::recv and the transport; BOUNDED for the decoder (buffers of up to 6 bytes per call in the quick tier, 8 in the thorough tier; 10 bytes did not finish in 4000 s, the transport buffer holds 32): one call of the real handleEnhancedBufferedData on an arbitrary buffer of that length and an arbitrary device state is shown to return the same symbol, arbitration verdict, consumed byte count, diagnostic notification sequence and bookkeeping as the reference decoder (only whole frames consumed, a dangling first byte and the next symbol stay buffered); SEND/START/cancel requests are proved to be encoded as 11ccccdd 10dddddd; PlainDevice::recv delivers the first buffered byte unchanged, writes the arbitration address exactly after a lone SYN and gives the verdict with the next symbol; FileTransport keeps the unconsumed stream bytes unchanged and in order, an overflow reset discards exactly the buffered bytes and is reported. EnhancedDevice::recv (one pass) hands the transport buffer to the frame decoder with the arbitration marked as running while one is requested, returns the verdict of the decoder, keeps a requested arbitration on a timeout and cancels it (START <SYN>) on any other transport error. With the transport contract this gives chunking independence by induction over calls (argument in DESIGN.md).',
   note=TB + 'decode runs are bounded stand-ins (6 / 8 bytes per call, unwinding assertions), labelled bounded in the evidence and not counted as proved; ::read/ppoll/Transport I/O, clock and listener are stubs; notifyInfoRetrieved/requestEnhancedInfo are stubs with asserted preconditions; the repetition of EnhancedDevice::recv until its deadline (clock dependent) is not under contract.',
   ref='DESIGN.md 5 (C14)'),
})

CHECKS.update({
 'C13': dict(
   technique='harness-enforced contracts (CBMC): inductive invariant over the operations storeLastData / isTrue with a monotone non-strict clock; loop-complete checks of hasField / checkValue / combined conditions against existential specifications',
   level='proof',
   text='For any history of updates (Message::storeLastData with arbitrary data, several updates may share a second) and queries, SimpleCondition::isTrue is proved to return exactly "the most recently stored data satisfies the condition" (or "seen" for a condition without values) by an invariant preserved by both operations; SimpleNumericCondition::checkValue is true iff the decoded value lies in one of the ranges; a combined condition is true iff all parts are; DataFieldSet::hasField(name, kind) iff a field of that kind (named so, or any) exists, for every field count up to MAX_POS=24 and every mix of kinds. Message::isAvailable is proved to be "no condition, or the condition (simple or combined) is true" independent of the check time a condition records, and Message::getAvailableSinceTime to be the creation time without condition and 0 for a false condition.',
   note=TB + 'The value of the stored data (decodeLastData*) is an environment stub (ghost truth value that changes only when the stored data changes); vector capacities 24 fields / 8 ranges / 8 parts are model bounds with unwinding assertions; Condition::create / resolve / derive string handling and MessageMap::resolveConditions are not under contract.',
   ref='DESIGN.md 5 (C13)'),
})

CHECKS.update({
 'C08': dict(
   technique='harness-enforced contracts (CBMC) on Message::createKey (definition and telegram overloads), Message::checkId and MessageMap::find(master,...) with the message map abstracted by its bucket invariant and a tracked definition',
   level='proof',
   text='Both key functions are proved equal to an independent key specification (3 bit id length, source class, destination, PB, SB, XOR fold of further id bytes) for ids of 0..7 bytes; lemma: a matching definition sits under exactly the key probed for its id length and source class, and equal keys agree on length, destination, PB, SB; find() is proved sound (every returned definition matches destination, PB/SB, all id bytes via checkId, source restriction and requested direction) and complete/longest (if an arbitrary tracked, available definition matches, a definition with an id at least as long is returned).',
   note=TB + 'std::map/vector abstracted: a probe returns some definition whose own key equals the probed key and that passes the real checkId (the bucket itself is a stub), the tracked definition is found under its key; the id length bookkeeping at the end of MessageMap::add (fragment, rule R16) is proved to establish and preserve the covering invariant find() assumes; chained ids (ChainedMessage::checkId), the name-based find and add/duplicate detection are not under contract.',
   ref='DESIGN.md I.2 (C08)'),
})

CHECKS.update({
 'C17': dict(
   technique='harness-enforced contracts (CBMC): comparator order axioms (loop-free), step contract of MessageMap::getNextPoll with the std::priority_queue algorithms as stubs that require a valid heap, window invariant preserved by selection and priority changes',
   level='proof',
   text='Message::isLessPollWeight is proved a strict weak order equal to (virtual time, priority, last poll time); one getNextPoll step selects a message to which no queued message is preferred, never moves the virtual time back, advances the selected message by exactly its priority and preserves the window invariant pollOrder <= lastPollOrder + priority for every queued message; setPollPriority/setUsedByCondition move a message at most to the end of the window; MessagePriorityQueue::push/remove keep entries unique and re-establish the heap precondition of the std:: algorithms. Bounded waiting and 1/p frequency follow from these by the argument in DESIGN.md (not machine-checked).',
   note=TB + 'std::priority_queue heap algorithms are trusted stubs with an explicit "valid heap" precondition; queue capacity 6 in the model (symbolic contents); in-place change of the poll order of an already queued message by setPollPriority (without re-push) is not covered; 32 bit wrap of the virtual time excluded by precondition.',
   ref='DESIGN.md I.2 (C17)'),
})

CHECKS.update({
 'C16': dict(
   technique='bounded CBMC checks (harness-enforced contracts) of the extracted Message::checkLevel against a token-membership specification, and of Message::hasLevel + MessageMap::find(circuit, name, levels, ...) with the name map abstracted; MessageMap::findAll (level, circuit, name, direction, time and availability filters) with the name map as an array of buckets and hasLevel used by its separately discharged contract; the authentication statement and the findAll call of the /data branch of MainLoop::executeGet as function fragments (R16) with UserList as stub',
   level='other',
   text='BOUNDED, partial: Message::checkLevel is checked equal to exact token membership (empty level free, list "*" grants all, no prefix/suffix/infix match) for all level and list strings up to 9 characters over the full character set; MessageMap::find by circuit and name hands out a message only if the client list grants its level (hasLevel -> checkLevel), finds a granted message, and falls back to the name-only key only when no circuit was given (strings up to 5 characters). That the command handlers (mainloop.cpp executeRead/executeWrite hex form and poll priority, mqtthandler.cpp, datahandler.cpp), findAll and UserList pass the right user levels is NOT decided. MessageMap::findAll (behind find, listen, HTTP /data, MQTT and KNX listings and newly defined messages) lists a definition exactly once iff all its filters admit it, never lists one whose level the client is not granted, independent of what else is stored under the same name (three keys with up to two definitions each). HTTP GET /data: the authentication statement and the listing call of MainLoop::executeGet (two fragments): a request naming a user or giving a secret goes on only after checkSecret succeeded for exactly that user and secret, and the listing uses the levels of that user (the default levels without user), so failed or missing authentication grants only the default levels. TCP auth command (MainLoop::executeAuth, whole function): the user of the connection changes only after checkSecret succeeded for the given name and secret, and then to exactly that name.',
   note=TB + 'bounded string model (capacity 9 / 5, unwinding assertions); the name map lookup (tolower, key concatenation, std::map::find, getFirstAvailable) is an environment stub returning an arbitrary message or none per key; in findAll lower-casing and the circuit/name comparisons are opaque per-definition verdicts; of the call sites only the HTTP /data one is extracted (as two fragments; the statements between them and the guard around the listing are not); the TCP command handlers, MQTT and KNX handlers and UserList itself (map lookups, ACL file parsing) are outside the extraction reach.',
   ref='DESIGN.md I.2 (C16)'),
 'C18': dict(
   technique='bounded CBMC checks (harness-enforced contracts) of the extracted RequestImpl::add HTTP branch against a decode-exactly-once specification (sscanf as a stub with a literal-format precondition) and of RequestImpl::split (TCP branch) against a character-level reference tokenizer; the static file branch of MainLoop::executeGet extracted as a function fragment (rule R16) with ifstream::open as a stub; StringReplacer::get / match / checkMatchability (MQTT topic template) extracted with the parts vector and the values map as fixed-capacity models and checked as a build-then-match round trip',
   level='other',
   text='BOUNDED, partial: for every HTTP request line up to 14 characters the URI is proved to have every %XY escape decoded exactly once, left to right, and the sscanf format is proved to be the literal "%1x%1x" (never request text); for every TCP command line up to 9 characters with terminated quotes the argument list equals the reference tokenizer (blanks outside quotes separate once, a token starting with a quote extends to the token ending with that quote, quotes removed, blanks inside kept). the static file branch of executeGet opens at most one file, only for a URI that starts with / and contains neither .. nor //, and the opened name is exactly HTML root + URI (+ index.html for a directory) with a known content type (URIs up to 8 characters). The HTTP branch of split, the /data branch of executeGet and MQTT topic matching (StringReplacer) are NOT decided in this revision. MQTT topics: for every matchable template of up to 5 parts made of constants and %circuit / %name / %field (each at most once, a constant after a field starting with a non-identifier character) and every triple of identifiers up to 2 characters, StringReplacer::get builds the template with the values filled in, cut before the first field without value, and StringReplacer::match maps that topic back to exactly the values it carries (the others stay empty) and reports a complete match for a complete topic; a parsed template has merged non-empty constants, letter-only field names and field indices consistent with the known names; a received topic is split at its last slash into the template part and get / set / list with optional ?args, anything else is ignored. Request accumulation: an HTTP request arriving in chunks with CR LF line ends is complete exactly with the empty line and hands on its first line without the HTTP version suffix; a TCP command is complete with its line end, which is removed.',
   note=TB + 'bounded string model (capacity 14 / 9, unwinding assertions); sscanf stub reads two hex digits; istringstream/getline(delim) and vector<string> are value models; command lines with an unterminated quote are outside the specification. Topic unit: template parsing (StringReplacer::parse / addPart / makeField) is checked separately to establish the parts shape the round trip assumes (templates up to 7 characters quick, 9 thorough); the head of MqttHandler::notifyMqttTopic (split at the last slash into template part, get/set/list and ?args) is extracted as a fragment (R16); the wiring between them (which replacer is used, publishing side in MqttHandler) is not extracted; ignoreCase is off; strings up to 10 characters.',
   ref='DESIGN.md I.2 (C18)'),
})

NOT_APPLICABLE = {
}
NOT_BUILT_REASON = 'no contract for this property is built in this revision (see DESIGN.md I.2); the property is not claimed'
NOT_YET = [ 'C08', 'C09', 'C10', 'C13', 'C16', 'C17', 'C18', 'C19', 'C20']


def main():
    checks = []
    for pid in sorted(CHECKS):
        c = CHECKS[pid]
        checks.append(dict(property_id=pid, quick_cmd='./check %s quick' % pid, thorough_cmd='./check %s thorough' % pid,
                           evidence_file='evidence/%s.json' % pid, replay_cmd_template='./check --replay {path}', engine='cbmc-contracts',
                           technique=c['technique'], level_claimed=dict(category=c['level'], text=c['text'], design_ref=c['ref']), level_note=c['note']))
    na = [dict(property_id=p, reason=r) for p, r in sorted(NOT_APPLICABLE.items())]
    for p in NOT_YET:
        if p not in CHECKS and p not in NOT_APPLICABLE:
            na.append(dict(property_id=p, reason=NOT_BUILT_REASON))
    man = dict(
        version=1,
        setup_cmd='python3 tools/setup.py',
        hooks=dict(guard='EBUSD_VERIF',
                   enable='no source hook exists: the verified text is extracted from /repo sources on every run; native replay drivers are compiled with g++ -fno-access-control -DEBUSD_VERIF against /repo sources',
                   baseline_off_cmd='cmake --build /repo/_build && ctest --test-dir /repo/_build -j8 --timeout 900',
                   source_commits=[], add_only=True),
        engines=[dict(name='cbmc-contracts', path='tools/', serves_properties=sorted(CHECKS),
                      kind_free_text='mechanical C++->C extraction of the real functions on every run + CBMC code contracts (goto-instrument --dfcc, loop contracts) discharged by cbmc; native replay of counterexamples against the real C++ objects')],
        checks=checks,
        notes='Entry point ./check <Cxx> quick|thorough; exit 0 held, 1 VIOLATION, 2 infrastructure. KNOWN_FINDINGS.txt lists fixed defects and known findings.',
        not_applicable=na)
    json.dump(man, open(os.path.join(HERE, 'MANIFEST.json'), 'w'), indent=1)


if __name__ == '__main__':
    main()
