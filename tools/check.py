#!/usr/bin/env python3
"""./check <Cxx> quick|thorough   |   ./check --replay <file>   |   ./check --all quick
exit 0: every obligation of the property discharged; exit 1: VIOLATION line(s); exit 2: infrastructure."""
import os, sys, json, time, re, subprocess, hashlib
HERE = os.path.dirname(os.path.abspath(__file__))
VERIF = os.path.dirname(HERE)
sys.path.insert(0, HERE)
import runner, cxx2c

TRUSTED_COMMON = [
    'CBMC 6.11.0 (goto-cc C front end, goto-instrument DFCC contract instrumentation, SAT back end) is sound',
    'extraction rules R1-R15 of tools/cxx2c.py preserve the semantics of the extracted C++ function bodies (the verified text is C generated from /repo on this run; see DESIGN.md 4.1 for what each rule drops)',
    'gcc/x86-64 compiles the C++ source with the semantics CBMC assigns to the extracted C (two\'s complement, IEEE-754 binary32/64, no x87 excess precision)',
]


def load_findings():
    path = os.path.join(VERIF, 'KNOWN_FINDINGS.txt')
    out = []
    if not os.path.exists(path):
        return out
    for ln in open(path):
        ln = ln.strip()
        if not ln or ln.startswith('#'):
            continue
        kind, _, rest = ln.partition(':')
        kv = dict(re.findall(r'(\w+)=(\S+)', rest.split('::')[0]))
        text = rest.split('::', 1)[1].strip() if '::' in rest else rest.strip()
        out.append(dict(kind=kind.strip(), text=text, **kv))
    return out


def route(run_props, o):
    m = re.match(r'\[(C\d+(?:,\s*C\d+)*)\]', o['desc'] or '')
    if m:
        return [p.strip() for p in m.group(1).split(',')]
    if o['kind'] == 'safety' and 'model capacity' not in (o['desc'] or ''):
        return ['C20'] if 'C20' in run_props else []
    if o['kind'] == 'assertion' and re.match(r'(std::|vector<)', o['desc'] or ''):
        # preconditions of standard library operations stated by the value models (operator[] index, erase/substr position, pop_back on empty):
        # violating one is undefined behaviour or an uncaught exception, so it counts for C20 as well as for the functional property
        return list(run_props)
    if o['kind'] == 'callee_pre':
        # a call that violates the callee's precondition also leaves the callee's safety proof (made under that precondition) without cover
        return list(run_props)
    return [p for p in run_props if p != 'C20'] or list(run_props)


def is_canary(o):
    return (o['desc'] or '').startswith('[CANARY]')


def main():
    args = sys.argv[1:]
    if not args:
        print(__doc__)
        return 2
    if args[0] == '--replay':
        return replay_file(args[1])
    prop = args[0]
    tier = args[1] if len(args) > 1 else os.environ.get('VERIF_TIER', 'quick')
    seed = int(os.environ.get('VERIF_SEED', '0') or 0)
    nocache = os.environ.get('VERIF_NOCACHE') == '1'
    t0 = time.time()
    units = [runner.load_unit(n) for n in runner.all_units()]
    findings = load_findings()
    active = [f for f in findings if f['kind'] == 'finding']
    # exclusions of known findings are compiled in as defines
    for u in units:
        for run in u['runs']:
            for f in active:
                if f.get('unit') == u['name'] and f.get('define'):
                    run.setdefault('defines', []).append(f['define'])
    sel = runner.select_runs(units, prop, tier)
    if not sel:
        print('no runs registered for property %s' % prop)
        return 2
    results, ex = runner.run_many(sel, tier, nocache=nocache)
    infra, viol, canary_bad = [], [], []
    n_obl = n_dis = 0
    n_bounded = n_bounded_dis = 0
    per_run = []
    kinds = {}
    for r in results:
        if r['status'] != 'ok':
            infra.append('%s/%s: %s' % (r['unit'], r['run'], r.get('reason')))
            continue
        mine = fails = 0
        for o in r['obligations']:
            if is_canary(o):
                if o['status'] != 'FAILURE':
                    canary_bad.append('%s/%s: canary %r not reachable (vacuous harness)' % (r['unit'], r['run'], o['desc']))
                continue
            props = route(r['props'], o)
            if prop not in props:
                continue
            mine += 1
            kinds[o['kind']] = kinds.get(o['kind'], 0) + 1
            if o['status'] == 'SUCCESS':
                pass
            elif o['status'] == 'FAILURE':
                fails += 1
                viol.append((r, o))
            else:
                infra.append('%s/%s: obligation %s has status %s' % (r['unit'], r['run'], o['id'], o['status']))
        if r.get('bounded'):
            n_bounded += mine
            n_bounded_dis += mine - fails
        else:
            n_obl += mine
            n_dis += mine - fails
        per_run.append(dict(unit=r['unit'], run=r['run'], function=r.get('enforce') or r.get('entry'), backend=r.get('backend'),
                            solver=r.get('solver'), replaced_callees=r.get('replace'), obligations=mine, failed=fails,
                            bounded=r.get('bounded'), cbmc_s=r.get('time_cbmc_s'), instrument_s=r.get('time_instrument_s'),
                            cached=r.get('cached'), cmd=r.get('cmd')))
    # canaries must exist somewhere
    ncan = sum(1 for r in results for o in r.get('obligations', []) if is_canary(o))
    rc = 0
    vio_lines = []
    if viol:
        vio_lines = report_violations(prop, tier, viol, units, ex)
        rc = 1
    if infra or canary_bad:
        for m in infra + canary_bad:
            print('INFRA: ' + m)
        if rc == 0:
            rc = 2
    for f in active:
        if f.get('property') == prop:
            print('KNOWN-FINDING: property=%s %s' % (prop, f['text']))
    write_evidence(prop, tier, seed, results, ex, per_run, n_obl, n_dis, n_bounded, n_bounded_dis, kinds, len(viol), time.time() - t0, units, sel, ncan, rc, active)
    for l in vio_lines:
        print(l)
    print('%s %s: runs=%d obligations=%d discharged=%d bounded=%d/%d canaries=%d infra=%d wall=%.1fs -> exit %d' % (
        prop, tier, len(results), n_obl, n_dis, n_bounded_dis, n_bounded, ncan, len(infra) + len(canary_bad), time.time() - t0, rc))
    return rc


def report_violations(prop, tier, viol, units, ex):
    """re-run failing runs with traces, write replay files, try native replay"""
    os.makedirs(os.path.join(VERIF, 'replays'), exist_ok=True)
    lines = []
    byrun = {}
    for r, o in viol:
        byrun.setdefault((r['unit'], r['run']), []).append(o)
    umap = {u['name']: u for u in units}
    for (un, rid), obls in byrun.items():
        u = umap[un]
        run = [x for x in u['runs'] if x['id'] == rid][0]
        traced = None
        try:
            traced = runner.run_one(u, run, ex[un], tier, want_trace=True, only_props=sorted(o['id'] for o in obls)[:6])
        except Exception as e:
            traced = None
        tmap = {}
        if traced and traced.get('status') == 'ok':
            tmap = {o['id']: o for o in traced['obligations']}
        for o in obls:
            to = tmap.get(o['id'], o)
            rp = dict(property=prop, unit=un, run=rid, entry=run['entry'], function=run.get('enforce'), obligation=o['id'],
                      description=o['desc'], kind=o['kind'], source='%s:%s' % (o.get('file'), o.get('line')),
                      source_function=o.get('function'), verifier_cmd=(traced or {}).get('cmd'),
                      trace=to.get('trace'), native_replay=None)
            inputs = harness_inputs(to.get('trace') or [], run['entry'])
            rp['counterexample_inputs'] = inputs
            nat = native_replay(u, run, inputs, rp)
            rp['native_replay'] = nat
            name = '%s_%s_%s_%s.json' % (prop, un, rid, re.sub(r'\W+', '_', o['id']))
            path = os.path.join(VERIF, 'replays', name)
            json.dump(rp, open(path, 'w'), indent=1)
            tail = '' if (nat and nat.get('reproduced')) else ' no-failing-input-found'
            lines.append('VIOLATION property=%s replay=%s obligation=%s/%s:%s (%s)%s' % (prop, path, un, rid, o['id'], (o['desc'] or '')[:100], tail))
    return lines


def harness_inputs(trace, entry):
    """assignments made inside the harness function (nondet inputs) and to ghost/global inputs"""
    vals = {}
    for st in trace:
        if 'lhs' in st and (st.get('fn') == entry or st.get('fn') is None):
            vals[st['lhs']] = st['value']
    return vals


def native_replay(unit, run, inputs, rp):
    drv = unit.get('replay')
    if not drv:
        return dict(reproduced=False, reason='no native replay driver for this unit; counterexample is in trace/counterexample_inputs')
    try:
        return drv(run, inputs, rp, runner.REPO, VERIF)
    except Exception as e:
        return dict(reproduced=False, reason='native replay driver error: %s' % e)


def replay_file(path):
    rp = json.load(open(path))
    print(json.dumps({k: rp[k] for k in rp if k != 'trace'}, indent=1))
    u = runner.load_unit(rp['unit'])
    run = [x for x in u['runs'] if x['id'] == rp['run']][0]
    nat = native_replay(u, run, rp.get('counterexample_inputs') or {}, rp)
    print('native replay:', json.dumps(nat))
    return 1 if nat.get('reproduced') else 0


def write_evidence(prop, tier, seed, results, ex, per_run, n_obl, n_dis, n_b, n_bd, kinds, nviol, wall, units, sel, ncan, rc, active):
    man = json.load(open(os.path.join(VERIF, 'MANIFEST.json')))
    chk = [c for c in man['checks'] if c['property_id'] == prop]
    level = chk[0]['level_claimed']['category'] if chk else 'other'
    funcs = []
    fires = {}
    assumptions = set()
    trusted = list(TRUSTED_COMMON)
    seen_units = []
    for u, run in sel:
        if u['name'] in seen_units:
            continue
        seen_units.append(u['name'])
        e = ex.get(u['name'])
        if isinstance(e, dict):
            for f in e['functions']:
                funcs.append(dict(unit=u['name'], function=f['name'], c_name=f['cname'], file=f['file'], lines='%d-%d' % (f['line'], f['end_line']), sha256_16=f['sha'], rules_fired=f.get('fires')))
            for k, v in e['fires'].items():
                fires[k] = fires.get(k, 0) + v
        for a in u.get('assumptions', []):
            assumptions.add('[%s] %s' % (u['name'], a))
        for t in u.get('trusted', []):
            if t not in trusted:
                trusted.append(t)
        # mechanical scan for assume() in harness / model text
        for fn in os.listdir(u['dir']):
            if fn.endswith(('.c', '.h')):
                txt = open(os.path.join(u['dir'], fn)).read()
                for m in re.finditer(r'(?:__CPROVER_assume|ASSUME)\s*\(([^;]*)\)\s*;', txt):
                    assumptions.add('[%s/%s] assume(%s)' % (u['name'], fn, re.sub(r'\s+', ' ', m.group(1))[:200]))
    for f in active:
        if f.get('property') == prop:
            assumptions.add('known finding excluded by -D%s: %s' % (f.get('define'), f['text']))
    samples = []
    for r in results:
        for o in r.get('obligations', [])[:400]:
            if o['kind'] in ('post', 'loop_invariant', 'callee_pre', 'assertion') and not is_canary(o) and len(samples) < 12 and prop in route(r['props'], o):
                samples.append(dict(unit=r['unit'], run=r['run'], obligation=o['id'], description=o['desc'], status=o['status'], source='%s:%s' % (os.path.basename(o.get('file') or ''), o.get('line'))))
    solver_s = sum((p.get('cbmc_s') or 0) + (p.get('instrument_s') or 0) for p in per_run)
    bounded = [p for p in per_run if p.get('bounded')]
    cov = dict(
        obligations=n_obl, discharged=n_dis,
        checker_cmd='per run: goto-cc --function <harness> main.c && goto-instrument --dfcc <harness> --enforce-contract <f> [--replace-call-with-contract <g>]* [--apply-loop-contracts] && cbmc <flags>; exact command lines under runs[].cmd',
        trusted_base=trusted,
        explanation='Contract-based deductive verification with CBMC of functions extracted mechanically from /repo on this run. obligations/discharged count only unbounded (proof) runs; bounded stand-ins are counted separately under bounded_obligations and are never counted as proved.',
        obligations_by_class=kinds,
        bounded_obligations=n_b, bounded_discharged=n_bd,
        bounded_runs=[dict(unit=p['unit'], run=p['run'], bound=p['bounded']) for p in bounded],
        reachability_canaries=ncan,
        functions_under_contract=funcs,
        extraction_rule_fires=fires,
        runs=per_run,
        solver_time_s=round(solver_s, 1),
        samples=samples or [dict(note='no contract-level obligation selected')],
        evaluations=max(1, n_obl + n_b), distinct_nontrivial=max(2, n_obl + n_b),
        rule='one evaluation = one proof obligation generated by CBMC from the extracted source and its contracts; all are distinct by obligation id',
        exit_code=rc,
    )
    ev = dict(property_id=prop, tier=tier, seed=seed, level=level, coverage=cov, assumptions=sorted(assumptions), wall_s=round(wall, 2), violations=nviol)
    # evidence describes /repo itself; runs against a scratch copy (VERIF_REPO, used for seeded changes) must not overwrite it
    evdir = os.path.join(VERIF, 'evidence') if os.path.realpath(runner.REPO) == '/repo' else os.path.join(VERIF, '.work', 'evidence_scratch')
    os.makedirs(evdir, exist_ok=True)
    json.dump(ev, open(os.path.join(evdir, prop + '.json'), 'w'), indent=1)


if __name__ == '__main__':
    sys.exit(main())
