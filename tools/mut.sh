#!/bin/bash
# mut.sh <prop> <sed-expr> <file-rel>  : apply sed to a scratch copy of /repo/src and run the check against it
set -e
prop=$1; expr=$2; file=$3
d=$(mktemp -d /tmp/mutXXXX)
mkdir -p $d/src; cp -r /repo/src/lib /repo/src/ebusd $d/src/ 
sed -i -E "$expr" $d/$file
if diff -q /repo/$file $d/$file >/dev/null; then echo "MUTATION DID NOT APPLY"; rm -rf $d; exit 3; fi
VERIF_REPO=$d ./check $prop quick | grep -v "^INFRA" | sed "s#$d#SCRATCH#g" | cut -c1-260
rm -rf $d
