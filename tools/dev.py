#!/usr/bin/env python3
"""developer helper: dev.py <unit> [run-id ...]  -- extract + run, print obligations summary"""
import sys, os, json
os.environ['VERIF_KEEP'] = '1'
sys.path.insert(0, os.path.dirname(os.path.abspath(__file__)))
import runner, cxx2c
unit = runner.load_unit(sys.argv[1])
ids = [a for a in sys.argv[2:] if not a.startswith('-')]
trace = '-t' in sys.argv
only_extract = '-x' in sys.argv
try:
    ex = runner.extract_unit(unit)
except cxx2c.ExtractError as e:
    print('EXTRACT ERROR', e); sys.exit(2)
print('extracted', len(ex['functions']), 'functions; fires', ex['fires'])
if only_extract: sys.exit(0)
sel = [(unit, r) for r in unit['runs'] if (not ids or r['id'] in ids)]
from concurrent.futures import ThreadPoolExecutor
def work(it):
    try:
        return runner.run_one(it[0], it[1], ex, 'thorough', want_trace=trace, nocache='-n' in sys.argv)
    except Exception as e:
        import traceback; traceback.print_exc()
        return dict(run=it[1]['id'], status='infra', reason=str(e), obligations=[])
with ThreadPoolExecutor(14) as p:
    for res in p.map(work, sel):
        ob = res['obligations']
        fails = [o for o in ob if o['status'] != 'SUCCESS']
        print('== %s: %s n=%d fail=%d cbmc=%ss gi=%ss cached=%s' % (res['run'], res['status'], len(ob), len(fails), res.get('time_cbmc_s'), res.get('time_instrument_s'), res.get('cached')))
        if res['status'] != 'ok': print('   ', res.get('reason'))
        fails = [o for o in fails if not (o['desc'] or '').startswith('[CANARY]')]
        for o in fails[:int(os.environ.get('NF','14'))]:
            print('   %s %s | %s | %s:%s %s' % ('FAIL' if o['status'] == 'FAILURE' else o['status'], o['id'], o['desc'], os.path.basename(o['file'] or ''), o['line'], o['kind']))
            if trace and 'trace' in o:
                ent = res.get('entry')
                for st in o['trace']:
                    if (os.environ.get('ANYFN') or st.get('fn') == ent or str(st.get('lhs', '')).startswith('g_last_')) and 'lhs' in st and not str(st['value']).endswith('@1') and (st['lhs'].isidentifier() or st['lhs'].startswith('buf[')) and (not st['lhs'].startswith('return_value') or st['lhs'].startswith('return_value_nondet_')) and not st['lhs'].startswith('tmp_'):
                        showre = os.environ.get('SHOWRE')
                        if showre:
                            import re as _re
                            def flat(pfx, v, out):
                                if isinstance(v, dict):
                                    for k2, v2 in v.items(): flat(pfx + '.' + k2, v2, out)
                                elif isinstance(v, list):
                                    out.append((pfx, '[' + ' '.join(str(x) for x in v[:10]) + ']'))
                                else:
                                    out.append((pfx, v))
                            o2 = []
                            flat(st['lhs'].replace('return_value_nondet_', '~'), st['value'], o2)
                            sel = ['%s=%s' % (k2, v2) for k2, v2 in o2 if _re.search(showre, k2)]
                            if sel: print('        IN ', '  '.join(sel)[:900])
                        else:
                            print('        IN ', st['lhs'], '=', json.dumps(st['value'])[:600])
                for st in o['trace'][-int(os.environ.get('NT', '0')):] if os.environ.get('NT') else []:
                    print('        ', st)
