// native replay for unit csv: real AttributedItem::dumpString and FileReader::splitFields (C19)
#include <cstdio>
#include <cstdarg>
#include <string>
#include <vector>
#include <sstream>
#include "lib/ebus/data.h"
#include "lib/ebus/filereader.h"
using namespace ebusd;
using namespace std;
static int g_failures = 0;
static void fail(const char* fmt, ...) { if (g_failures++ >= 6) return; va_list ap; va_start(ap, fmt); printf("REPRODUCED: "); vprintf(fmt, ap); printf("\n"); va_end(ap); }
static bool ok_field(const string& f, bool first) {
  if (f.empty()) return true;
  if (f.front() == ' ' || f.back() == ' ') return false;
  if (first && (f[0] == '#' || (f.size() > 1 && f[0] == '/' && f[1] == '/'))) return false;
  return true;
}
static void check(const vector<string>& fields) {
  ostringstream out;
  for (size_t i = 0; i < fields.size(); i++) AttributedItem::dumpString(i > 0, fields[i], &out);
  string line = out.str();
  istringstream in(line + "\nNEXT,LINE\n");
  vector<string> row; unsigned int lineNo = 1;
  bool r = FileReader::splitFields(&in, &row, &lineNo, nullptr, nullptr, true);
  bool allEmpty = true; for (auto& f : fields) allEmpty = allEmpty && f.empty();
  string desc; for (auto& f : fields) desc += "[" + f + "]";
  string got; for (auto& f : row) got += "[" + f + "]";
  if (line.empty()) return;   // an empty line is skipped like a comment line
  if (lineNo != 2) { fail("fields %s written as line <%s>: reading it back swallows the following line (read %s)", desc.c_str(), line.c_str(), got.c_str()); return; }
  if (allEmpty) { if (!row.empty()) fail("empty fields %s written as <%s> read back as %s", desc.c_str(), line.c_str(), got.c_str()); return; }
  if (!r || row != fields) fail("fields %s written as line <%s> are read back as %s", desc.c_str(), line.c_str(), got.c_str());
}
int main(int argc, char** argv) {
  const char alphabet[] = {'a', ',', '"', ' ', ';', '#', '/'};
  vector<string> all{""};
  size_t start = 0;
  for (int len = 1; len <= 5; len++) {
    size_t end = all.size();
    for (size_t i = start; i < end; i++) for (char c : alphabet) all.push_back(all[i] + c);
    start = end;
  }
  for (auto& f : all) if (ok_field(f, true)) check({f});
  size_t n3 = 1 + 7 + 49 + 343;
  for (size_t i = 0; i < n3 && g_failures < 6; i++) for (size_t j = 0; j < n3; j++) if (ok_field(all[i], true) && ok_field(all[j], false)) check({all[i], all[j]});
  if (!g_failures) printf("NOT-REPRODUCED\n");
  return 0;
}
