// native replay for unit telegram: real Message / ChainedMessage prepareMaster, storeLastData, combineLastParts (C09)
#include <cstdio>
#include <cstdarg>
#include <string>
#include <vector>
#include <map>
#include <sstream>
#include "lib/ebus/data.h"
#include "lib/ebus/datatype.h"
#include "lib/ebus/message.h"
using namespace ebusd;
using namespace std;
static int g_failures = 0;
static void fail(const char* fmt, ...) { if (g_failures++ >= 4) return; va_list ap; va_start(ap, fmt); printf("REPRODUCED: "); vprintf(fmt, ap); printf("\n"); va_end(ap); }
class NoResolver : public Resolver {
 public:
  DataFieldTemplates* getTemplates(const string& filename) override { return tpl; }
  result_t loadDefinitionsFromConfigPath(FileReader* reader, const string& filename, map<string, string>* defaults, string* errorDescription, bool replace = false) override { return RESULT_ERR_NOTFOUND; }
  DataFieldTemplates* tpl = new DataFieldTemplates();
};
static string hex2(unsigned v) { char b[8]; snprintf(b, sizeof(b), "%02x", v & 0xff); return b; }
int main(int argc, char** argv) {
  // definitions: direction, chain ids with lengths, number of UCH fields
  struct Def { const char* dir; const char* ids; vector<size_t> lengths; vector<string> suffix; size_t fields; };
  vector<Def> defs = {
    {"w", "24:2;25:2", {2, 2}, {"24", "25"}, 4},
    {"w", "24:1;25:3;26:2", {1, 3, 2}, {"24", "25", "26"}, 6},
    {"r", "0124;0125;0126", {0, 0, 0}, {"0124", "0125", "0126"}, 0},
    {"r", "24:2;25:2", {0, 0}, {"24", "25"}, 0},
    {"w", "", {}, {""}, 3},      // plain (not chained) write message
  };
  for (auto& d : defs) {
    unsigned int lineNo = 0; string err; vector<string> row;
    MessageMap* messages = new MessageMap("");
    messages->setResolver(new NoResolver());
    istringstream hdr("#");
    messages->readLineFromStream(&hdr, "x", false, &lineNo, &row, &err, false, nullptr, nullptr);
    string line = string(d.dir) + ",cir,msg,,,08,B509," + d.ids;
    string input, alldata;
    for (size_t f = 0; f < d.fields; f++) { line += string(",f") + char('a' + f) + ",m,UCH,,,"; input += (f ? ";" : "") + to_string(10 + f); alldata += hex2(10 + (unsigned)f); }
    if (d.fields == 0) line += ",fa,s,UCH,,,";
    istringstream def(line);
    result_t r = messages->readLineFromStream(&def, "x", false, &lineNo, &row, &err, false, nullptr, nullptr);
    if (r != RESULT_OK) { printf("INFO definition %s not loaded: %s %s\n", line.c_str(), getResultCode(r), err.c_str()); continue; }
    Message* msg = messages->find("cir", "msg", "", d.dir[0] == 'w');
    if (!msg) { printf("INFO definition %s not found\n", line.c_str()); continue; }
    size_t pos = 0; string joined;
    for (size_t index = 0; index < msg->getCount(); index++) {
      istringstream in(input);
      MasterSymbolString master;
      r = msg->prepareMaster(index, 0xff, SYN, ';', &in, &master);
      size_t len = d.lengths.empty() ? d.fields : d.lengths[index];
      string part = alldata.substr(2 * pos, 2 * len);
      string expect = "ff08b509" + hex2((unsigned)(d.suffix[index].size() / 2 + len)) + d.suffix[index] + part;
      if (r != RESULT_OK) { fail("definition \"%s\" with input \"%s\": prepareMaster(part %zu) = %s, expected telegram %s", line.c_str(), input.c_str(), index, getResultCode(r), expect.c_str()); break; }
      if (master.getStr() != expect) { fail("definition \"%s\" with input \"%s\": part %zu built as %s, expected %s", line.c_str(), input.c_str(), index, master.getStr().c_str(), expect.c_str()); break; }
      size_t found = 99;
      if (!msg->checkId(master, &found) || found != index) fail("definition \"%s\": built part %zu (%s) is identified as part %zu", line.c_str(), index, master.getStr().c_str(), found);
      SlaveSymbolString slave; slave.push_back(1); slave.push_back((symbol_t)(0x40 + index));
      r = msg->storeLastData(index, slave);
      pos += len; joined += part;
      if (index + 1 == msg->getCount()) {
        string em = "ff08b509" + hex2((unsigned)(d.suffix[0].size() / 2 + pos)) + d.suffix[0] + joined;
        if (r != RESULT_OK) fail("definition \"%s\": storing the last part gives %s, expected the joined value", line.c_str(), getResultCode(r));
        else if (msg->getLastMasterData().getStr() != em) fail("definition \"%s\" with input \"%s\": joined master data %s, expected %s", line.c_str(), input.c_str(), msg->getLastMasterData().getStr().c_str(), em.c_str());
        string es = hex2((unsigned)msg->getCount());
        for (size_t i = 0; i < msg->getCount(); i++) es += hex2(0x40 + (unsigned)i);
        if (r == RESULT_OK && msg->getLastSlaveData().getStr() != es) fail("definition \"%s\": joined slave data %s, expected %s", line.c_str(), msg->getLastSlaveData().getStr().c_str(), es.c_str());
      }
    }
  }
  if (!g_failures) printf("NOT-REPRODUCED\n");
  return 0;
}
