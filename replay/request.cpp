// native replay for unit request: real RequestImpl::add (HTTP percent decoding) and split
#include <cstdio>
#include <cstdarg>
#include <string>
#include <vector>
#include "ebusd/request.h"
using namespace ebusd;
static int g_failures = 0;
static void fail(const char* fmt, ...) { if (g_failures++ >= 4) return; va_list ap; va_start(ap, fmt); printf("REPRODUCED: "); vprintf(fmt, ap); printf("\n"); va_end(ap); }
static std::string ref_decode(const std::string& s) {
  std::string o; size_t i = 0; bool stop = false;
  auto hx = [](char c) { return (c >= '0' && c <= '9') ? c - '0' : (c >= 'a' && c <= 'f') ? c - 'a' + 10 : (c >= 'A' && c <= 'F') ? c - 'A' + 10 : -1; };
  while (i < s.size()) {
    if (!stop && s[i] == '%' && i + 2 < s.size() + 0 && i + 3 <= s.size() && hx(s[i + 1]) >= 0 && hx(s[i + 2]) >= 0) { o += static_cast<char>((hx(s[i + 1]) << 4) | hx(s[i + 2])); i += 3; }
    else { if (s[i] == '%') stop = true; o += s[i]; i++; }
  }
  return o;
}
int main(int argc, char** argv) {
  const char* uris[] = {"GET /a%41b", "GET /data/x%20y", "GET /%2541", "GET /a%2fb%2Fc", "GET /plain", "GET /p%zz%41", "GET /%41%42%43"};
  for (auto u : uris) {
    RequestImpl r(true);
    std::string req = std::string(u) + " HTTP/1.1\r\nHost: x\r\n\r\n";
    r.add(req.c_str());
    std::string exp = ref_decode(u);
    if (r.m_request != exp) fail("HTTP request line \"%s\": URI decoded to \"%s\", expected \"%s\" (every percent escape decoded exactly once)", u, r.m_request.c_str(), exp.c_str());
  }
  if (!g_failures) printf("NOT-REPRODUCED\n");
  fflush(stdout);
  return g_failures ? 1 : 0;
}
