// native replay for unit handler: the real DirectProtocolHandler driven symbol by symbol (as run() does) by a scripted
// fake device; reported messages are compared with the reference recogniser (units/handler/rx_spec.h)
#include "fakes.h"
#include <cstring>
#include "sym_spec.h"
#include "rx_spec.h"
struct rx_t g_rx;
class CountingRequest : public BusRequest {
 public:
  explicit CountingRequest(const MasterSymbolString& m) : BusRequest(m, false), notified(0), last(RESULT_OK) {}
  bool notify(result_t result, const SlaveSymbolString& slave) override { notified++; last = result; return false; }
  int notified; result_t last;
};

struct Tel { std::vector<symbol_t> m, s; };
static void esc_push(std::vector<symbol_t>& out, symbol_t v) { if (v == 0xA9) { out.push_back(0xA9); out.push_back(0x00); } else if (v == 0xAA) { out.push_back(0xA9); out.push_back(0x01); } else out.push_back(v); }
static symbol_t crc_of(const std::vector<symbol_t>& p) { symbol_t c = 0; for (auto v : p) c = spec_crc_esc(c, v); return c; }
// wire bytes of a complete telegram (master part, CRC, ACK, slave part, CRC, ACK) followed by SYN
static std::vector<symbol_t> wire(const std::vector<symbol_t>& m, const std::vector<symbol_t>& s) {
  std::vector<symbol_t> w;
  for (auto v : m) esc_push(w, v);
  esc_push(w, crc_of(m));
  if (m[1] != 0xFE) { w.push_back(0x00); if (!isMaster(m[1])) { for (auto v : s) esc_push(w, v); esc_push(w, crc_of(s)); w.push_back(0x00); } }
  w.push_back(0xAA);
  return w;
}
// run a passive stream through the real handler and through the recogniser, compare reports
static void run_stream(const char* name, const std::vector<symbol_t>& stream) {
  FakeDevice* dev = new FakeDevice(); FakeListener lis; ebus_protocol_config_t cfg = defaultConfig(); cfg.answer = false;
  DirectProtocolHandler& h = *new DirectProtocolHandler(cfg, dev, &lis);
  memset(&g_rx, 0, sizeof(g_rx));
  std::vector<Tel> expected;
  for (auto sym : stream) {
    dev->script.push_back({RESULT_OK, sym, as_none});
    unsigned int recvTimeout = 0; symbol_t sentSymbol = ESC; struct timespec sentTime;
    result_t r = h.handleSend(&recvTimeout, &sentSymbol, &sentTime);
    if (r >= RESULT_OK) h.handleReceive(recvTimeout, r == RESULT_CONTINUE, sentSymbol, &sentTime);
    rx_step(RESULT_OK, sym);
    if (g_rx.emit) { Tel t; t.m.assign(g_rx.cmd, g_rx.cmd + g_rx.cn); if (t.m[1] != 0xFE && !isMaster(t.m[1])) t.s.assign(g_rx.res, g_rx.res + g_rx.rn); expected.push_back(t); }
  }
  bool same = lis.messages.size() == expected.size();
  for (size_t i = 0; same && i < expected.size(); i++) same = lis.messages[i].master == expected[i].m && lis.messages[i].slave == expected[i].s && lis.messages[i].dir == md_recv;
  if (!same) {
    std::string got, exp;
    for (auto& m : lis.messages) got += hexs(m.master) + "/" + hexs(m.slave) + " ";
    for (auto& t : expected) exp += hexs(t.m) + "/" + hexs(t.s) + " ";
    fail("%s: bus stream %s: ebusd reported [%s] but the telegrams on the bus are [%s]", name, hexs(stream).c_str(), got.c_str(), exp.c_str());
  }
}
static std::vector<symbol_t> cat(std::initializer_list<std::vector<symbol_t>> parts) { std::vector<symbol_t> o; for (auto& p : parts) o.insert(o.end(), p.begin(), p.end()); return o; }

// a request is pending and the device refuses to start the arbitration while the handler skips a broken telegram:
// the rest of that telegram must not be parsed as a new telegram (no SYN was seen)
static void run_start_failure() {
  FakeDevice* dev = new FakeDevice(); FakeListener lis; ebus_protocol_config_t cfg = defaultConfig(); cfg.answer = false; cfg.lockCount = 1;
  DirectProtocolHandler& h = *new DirectProtocolHandler(cfg, dev, &lis);
  std::vector<symbol_t> inner = {0x03, 0xfe, 0xb5, 0x16, 0x01, 0x00};
  std::vector<symbol_t> stream = {0xAA, 0xAA, 0xAA, 0x10, 0xA9, 0x05};   // SYNs, then a telegram start broken by an invalid escape pair
  for (auto v : inner) stream.push_back(v);
  stream.push_back(crc_of(inner));                                   // ... whose tail happens to look like a broadcast telegram
  MasterSymbolString m; for (symbol_t v : {0x31, 0x15, 0xb5, 0x09, 0x00}) m.push_back(v);
  CountingRequest* req = new CountingRequest(m);
  dev->startResult = RESULT_ERR_SEND;
  size_t i = 0;
  for (auto sym : stream) {
    if (i++ == 5) h.m_nextRequests.push(req);                          // the request arrives while the broken telegram is skipped
    dev->script.push_back({RESULT_OK, sym, as_none});
    unsigned int recvTimeout = 0; symbol_t sentSymbol = ESC; struct timespec sentTime;
    result_t r = h.handleSend(&recvTimeout, &sentSymbol, &sentTime);
    if (r >= RESULT_OK) h.handleReceive(recvTimeout, r == RESULT_CONTINUE, sentSymbol, &sentTime);
  }
  if (!lis.messages.empty()) fail("start failure while skipping: bus stream %s (no SYN before 03fe...): ebusd reported %s/ although the bytes are the tail of a broken telegram", hexs(stream).c_str(), hexs(lis.messages[0].master).c_str());
}

// active request: ebusd wins the arbitration and sends the request; the participant's reactions are scripted
struct ActiveResult { int notified; result_t last; std::vector<symbol_t> sent; std::vector<Reported> msgs; };
static ActiveResult run_active(const std::vector<symbol_t>& master, const std::vector<std::vector<symbol_t>>& replies, int continueAtEcho) {
  // replies[k]: symbols the other participant sends after ebusd's k-th "turn" (a turn ends when ebusd has nothing to send)
  FakeDevice* dev = new FakeDevice(); FakeListener lis; ebus_protocol_config_t cfg = defaultConfig(); cfg.answer = false; cfg.lockCount = 1;
  DirectProtocolHandler& h = *new DirectProtocolHandler(cfg, dev, &lis);
  MasterSymbolString m; for (auto v : master) m.push_back(v);
  CountingRequest* req = new CountingRequest(m);
  dev->echoMode = true;
  dev->script.push_back({RESULT_OK, 0xAA, as_none});
  dev->script.push_back({RESULT_OK, 0xAA, as_none});
  h.m_nextRequests.push(req);
  size_t turn = 0; int echoes = 0; bool started = false;
  for (int step = 0; step < 400 && req->notified == 0; step++) {
    unsigned int recvTimeout = 0; symbol_t sentSymbol = ESC; struct timespec sentTime;
    size_t sentBefore = dev->sent.size();
    result_t r = h.handleSend(&recvTimeout, &sentSymbol, &sentTime);
    if (!started && !dev->starts.empty() && dev->starts.back() != SYN && dev->script.empty()) {   // arbitration requested: SYN, then our address wins
      dev->script.push_back({RESULT_OK, 0xAA, as_none}); dev->script.push_back({RESULT_OK, master[0], as_won}); started = true;
    }
    bool sentNow = dev->sent.size() > sentBefore;
    if (sentNow && ++echoes == continueAtEcho) dev->echoResults.push_back(RESULT_CONTINUE);
    if (!sentNow && started && dev->script.empty() && dev->echoed >= dev->sent.size() && turn < replies.size()) {
      for (auto v : replies[turn]) dev->script.push_back({RESULT_OK, v, as_none});
      turn++;
    }
    if (r >= RESULT_OK) h.handleReceive(recvTimeout, r == RESULT_CONTINUE, sentSymbol, &sentTime);
  }
  return {req->notified, req->last, dev->sent, lis.messages};
}
static void run_active_tests() {
  std::vector<symbol_t> bc = {0x31, 0xfe, 0xb5, 0x16, 0x01, 0x00}, ms = {0x31, 0x15, 0xb5, 0x09, 0x03, 0x0d, 0x2a, 0x00}, sl = {0x02, 0x11, 0x22};
  // 1. broadcast: the echo of the final CRC symbol arrives together with further buffered data (RESULT_CONTINUE)
  { std::vector<symbol_t> w; for (size_t i = 1; i < bc.size(); i++) esc_push(w, bc[i]); esc_push(w, crc_of(bc));
    ActiveResult a = run_active(bc, {}, (int)w.size());
    if (a.notified == 1 && a.last != RESULT_OK && a.msgs.size() == 1) fail("active broadcast %s sent completely and reported as sent message, but the request completed with result %d (%s) because the last echo came with more buffered data", hexs(bc).c_str(), a.last, getResultCode(a.last)); }
  // 2. master-slave: first response has a bad CRC, the repeated response is good: expect NAK, re-read, ACK, result OK
  { std::vector<symbol_t> bad; for (auto v : sl) esc_push(bad, v); esc_push(bad, crc_of(sl) ^ 0x01);
    std::vector<symbol_t> good; for (auto v : sl) esc_push(good, v); esc_push(good, crc_of(sl));
    std::vector<symbol_t> first = {0x00}; first.insert(first.end(), bad.begin(), bad.end());
    ActiveResult a = run_active(ms, {first, good}, -1);
    bool nakSent = false; for (auto v : a.sent) nakSent = nakSent || v == 0xFF;
    if (!(a.notified == 1 && a.last == RESULT_OK && nakSent)) fail("active request %s, slave answers with a bad CRC first and correctly when asked again: expected NAK, one re-read and success; got result %d (%s), NAK sent: %d, symbols sent %s", hexs(ms).c_str(), a.last, getResultCode(a.last), nakSent, hexs(a.sent).c_str()); }
  // 3. plain success paths must stay successful
  { std::vector<symbol_t> good; for (auto v : sl) esc_push(good, v); esc_push(good, crc_of(sl));
    std::vector<symbol_t> first = {0x00}; first.insert(first.end(), good.begin(), good.end());
    ActiveResult a = run_active(ms, {first}, -1);
    if (!(a.notified == 1 && a.last == RESULT_OK && a.msgs.size() == 1)) fail("active request %s with a correct response: result %d, %zu messages reported", hexs(ms).c_str(), a.last, a.msgs.size()); }
}


// a pending arbitration must not survive the loss of the signal: real PlainDevice over a scripted transport
#include "lib/ebus/device_trans.h"
#include "lib/ebus/transport.h"
class ScriptTransport : public Transport {
 public:
  ScriptTransport() : Transport("script", 0) {}
  std::string getTransportInfo() const override { return "script"; }
  result_t open() override { return RESULT_OK; }
  void close() override {}
  bool isValid() override { return true; }
  result_t write(const uint8_t* data, size_t len) override { for (size_t i = 0; i < len; i++) { writes.push_back(data[i]); pending.push_back(data[i]); } return RESULT_OK; }   // echo
  result_t read(unsigned int timeout, const uint8_t** data, size_t* len) override {
    if (!have) { if (pending.empty()) return RESULT_ERR_TIMEOUT; cur = pending.front(); pending.pop_front(); have = true; }
    *data = &cur; *len = 1; return RESULT_OK;
  }
  void readConsumed(size_t) override { have = false; }
  result_t openInternal() override { return RESULT_OK; }
  std::deque<uint8_t> pending; std::vector<uint8_t> writes; uint8_t cur = 0; bool have = false;
};
static void step(DirectProtocolHandler& h) {
  unsigned int recvTimeout = 0; symbol_t sentSymbol = ESC; struct timespec sentTime;
  result_t r = h.handleSend(&recvTimeout, &sentSymbol, &sentTime);
  if (r >= RESULT_OK) h.handleReceive(0, r == RESULT_CONTINUE, sentSymbol, &sentTime);
}
static void run_nosignal_arbitration() {
  ScriptTransport* tr = new ScriptTransport(); PlainDevice* dev = new PlainDevice(tr); FakeListener lis;
  ebus_protocol_config_t cfg = defaultConfig(); cfg.answer = false; cfg.lockCount = 1; cfg.generateSyn = false;
  DirectProtocolHandler& h = *new DirectProtocolHandler(cfg, dev, &lis);
  MasterSymbolString m; for (symbol_t v : {0x31, 0x15, 0xb5, 0x09, 0x00}) m.push_back(v);
  CountingRequest* req = new CountingRequest(m);
  tr->pending.push_back(0xAA); step(h); tr->pending.push_back(0xAA); step(h);     // signal acquired, bus idle
  h.m_nextRequests.push(req);
  tr->pending.push_back(0x10); step(h);                                            // some other symbol: the arbitration is requested for the next SYN
  if (!dev->isArbitrating()) { tr->pending.push_back(0xAA); step(h); }
  bool requested = dev->isArbitrating();
  h.m_lastReceive -= 5;                                                            // the bus stays silent for more than a second
  for (int i = 0; i < 3 && h.m_state != bs_noSignal; i++) step(h);
  size_t writesBefore = tr->writes.size();
  bool drained = req->notified == 1 && req->last == RESULT_ERR_NO_SIGNAL && h.m_nextRequests.peek() == nullptr;
  tr->pending.push_back(0xAA); step(h);                                            // the signal returns with a lone SYN
  if (requested && drained && tr->writes.size() > writesBefore)
    fail("signal lost while an arbitration was pending: the request was completed with ERR_NO_SIGNAL and no request is queued, but after the next SYN ebusd wrote its address %02x on the bus", tr->writes.back());
}

int main(int argc, char** argv) {
  run_nosignal_arbitration();
  run_active_tests();
  run_start_failure();
  std::vector<symbol_t> bc = {0x10, 0xfe, 0xb5, 0x16, 0x03, 0x01, 0xa9, 0xaa}, ms = {0x03, 0x15, 0xb5, 0x09, 0x03, 0x0d, 0x2a, 0x00}, sl = {0x02, 0xaa, 0x55}, mm = {0x71, 0x10, 0x07, 0x04, 0x00};
  std::vector<symbol_t> syn = {0xAA};
  // well-formed traffic
  run_stream("valid", cat({syn, wire(bc, {}), wire(ms, sl), wire(mm, {})}));
  // escape symbol directly after SYN, then SYN, then a valid telegram: the telegram must still be reported
  run_stream("SYN ESC SYN then telegram", cat({syn, {0xA9}, syn, wire(bc, {})}));
  run_stream("SYN ESC SYN then MS telegram", cat({syn, {0xA9}, syn, wire(ms, sl)}));
  // non-master source address: must not be reported
  for (symbol_t q : {(symbol_t)0x7b, (symbol_t)0x15, (symbol_t)0x08, (symbol_t)0xfe}) { std::vector<symbol_t> b2 = bc; b2[0] = q; run_stream("non-master source", cat({syn, wire(b2, {}), wire(bc, {})})); }
  // escaped symbol as first symbol after SYN (A9 01 = AA is no master)
  run_stream("escaped first symbol", cat({syn, {0xA9, 0x01, 0xfe, 0xb5, 0x16, 0x00}, syn, wire(bc, {})}));
  // corrupted fragments followed by valid telegrams
  { auto w = wire(ms, sl); for (size_t cut = 1; cut < w.size(); cut++) { std::vector<symbol_t> frag(w.begin(), w.begin() + cut); run_stream("truncated then valid", cat({syn, frag, syn, wire(ms, sl)})); } }
  { auto w = wire(ms, sl); for (size_t i = 0; i + 1 < w.size(); i++) { auto w2 = w; w2[i] ^= 0x04; run_stream("bit flip then valid", cat({syn, w2, syn, wire(bc, {})})); } }
  // NAK and repeat of either part
  { std::vector<symbol_t> w; for (auto v : ms) esc_push(w, v); esc_push(w, crc_of(ms) ^ 1); w.push_back(0xFF); auto w2 = wire(ms, sl); run_stream("master NAK repeat", cat({syn, w, w2})); }
  if (!g_failures) printf("NOT-REPRODUCED\n");
  fflush(stdout);
  return g_failures ? 1 : 0;
}
