// native replay for unit numtext: real NumberDataType::readFromRawValue (C05, C12)
#include <cstdio>
#include <cstdarg>
#include <cstring>
#include <string>
#include <sstream>
#include <iomanip>
#include "lib/ebus/datatype.h"
using namespace ebusd; using namespace std;
static int g_failures = 0;
static void fail(const char* fmt, ...) { if (g_failures++ >= 6) return; va_list ap; va_start(ap, fmt); printf("REPRODUCED: "); vprintf(fmt, ap); printf("\n"); va_end(ap); }
int main(int argc, char** argv) {
  // integer types with a multiplier (negative divisor): the shown text is value * multiplier without fraction and never in exponent notation
  for (const char* id : {"UCH", "UIN", "SIN", "ULG", "ULR", "SLG", "U4L", "S4L", "U3N", "S3N"}) {
    const NumberDataType* base = (const NumberDataType*)DataTypeList::getInstance()->get(id);
    if (!base) continue;
    for (int mult : {10, 100}) {
      const NumberDataType* d = nullptr;
      if (base->derive(-mult, 0, &d) != RESULT_OK || !d) continue;
      for (unsigned v : {5u, 255u, 12345u, 65000u, 1234567u, 16777215u}) {
        if (base->getBitCount() < 32 && v >= (1u << base->getBitCount())) continue;
        if (d->checkValueRange(v) != RESULT_OK || v == d->getReplacement()) continue;
        bool neg = base->hasFlag(SIG) && base->getBitCount() < 32 && (v & (1u << (base->getBitCount() - 1)));
        if (neg) continue;
        char exp[64]; snprintf(exp, sizeof(exp), "%.0f", (double)((float)v * (float)mult));
        for (int pre = 0; pre < 2; pre++) {
          ostringstream out; if (pre) out << hex << setw(6) << setfill('*') << scientific << setprecision(2) << 1.5 << ";";
          size_t before = out.str().size();
          result_t r = d->readFromRawValue(v, OF_NONE, &out);
          string got = out.str().substr(before);
          if (r != RESULT_OK || got != exp) fail("type %s with multiplier %d (divisor -%d), raw value %u%s: shown as \"%s\" (%s), expected \"%s\"", id, mult, mult, v, pre ? " after other output on the stream" : "", got.c_str(), getResultCode(r), exp);
        }
      }
    }
  }
  // an IEEE float field decoded after other fields on the same stream
  {
    const NumberDataType* e = (const NumberDataType*)DataTypeList::getInstance()->get("EXP");
    for (float v : {0.25f, 0.065f, -32.767f, 0.0f}) {
      unsigned raw; memcpy(&raw, &v, 4);
      ostringstream fresh; e->readFromRawValue(raw, OF_NONE, &fresh);
      ostringstream used; used << hex << setw(6) << setfill('*') << fixed << setprecision(2) << 1.5 << ";"; size_t before = used.str().size();
      e->readFromRawValue(raw, OF_NONE, &used);
      if (used.str().substr(before) != fresh.str()) fail("type EXP, value %g: shown as \"%s\" after other output on the stream, as \"%s\" on a fresh stream", (double)v, used.str().substr(before).c_str(), fresh.str().c_str());
    }
  }
  if (!g_failures) printf("NOT-REPRODUCED\n");
  return 0;
}
