// native replay for unit datetime: real DateTimeDataType::readSymbols on the built-in types (C05, C12, C20)
#include <cstdio>
#include <cstdarg>
#include <cstring>
#include <string>
#include <sstream>
#include <iomanip>
#include "lib/ebus/datatype.h"
#include "lib/ebus/symbol.h"
using namespace ebusd; using namespace std;
static int g_failures = 0; static const char* g_only = nullptr; static int g_per = 0;
static void fail(const char* fmt, ...) { if (g_per++ >= 2 || g_failures++ >= 8) return; va_list ap; va_start(ap, fmt); printf("REPRODUCED: "); vprintf(fmt, ap); printf("\n"); va_end(ap); }
// days since 1970-01-01 -> civil date (proleptic Gregorian calendar)
static void civil(long z, int* y, unsigned* m, unsigned* d) { z += 719468; long era = (z >= 0 ? z : z - 146096) / 146097; unsigned doe = (unsigned)(z - era * 146097); unsigned yoe = (doe - doe/1460 + doe/36524 - doe/146096) / 365; long yy = (long)yoe + era * 400; unsigned doy = doe - (365*yoe + yoe/4 - yoe/100); unsigned mp = (5*doy + 2)/153; *d = doy - (153*mp+2)/5 + 1; *m = mp < 10 ? mp+3 : mp-9; *y = (int)(yy + (*m <= 2)); }
static string dec(const char* type, initializer_list<unsigned> bytes, result_t* res, ostringstream* pre = nullptr) {
  const DataType* t = DataTypeList::getInstance()->get(type);
  SlaveSymbolString s; s.push_back((symbol_t)bytes.size()); for (unsigned b : bytes) s.push_back((symbol_t)b);
  ostringstream own; ostringstream& out = pre ? *pre : own; size_t before = out.str().size();
  *res = t->readSymbols(0, bytes.size(), s, OF_NONE, &out);
  return out.str().substr(before);
}
static bool want(const char* run, const char* name) { g_per = 0; return !run || !strcmp(run, "x") || !strcmp(run, name); }
int main(int argc, char** argv) {
  const char* run = argc > 1 ? argv[1] : nullptr; result_t r; char exp[48];
  if (want(run, "day")) for (unsigned n = 0; n < 65535; n++) {
    int y; unsigned m, d; civil((long)n - 25567, &y, &m, &d); snprintf(exp, sizeof(exp), "%02u.%02u.%d", d, m, y);
    string got = dec("DAY", {n & 0xff, n >> 8}, &r);
    if (r != RESULT_OK || got != exp) fail("DAY bytes %02x %02x (day count %u): decoded as \"%s\" (%s), the calendar date %u days after 01.01.1900 is %s", n & 0xff, n >> 8, n, got.c_str(), getResultCode(r), n, exp);
    if (n == 60) g_per = 0;    // report one of each kind
  }
  if (want(run, "dtm")) {
    for (unsigned long dd = 0; dd < 33237; dd++) for (unsigned long mm : {0ul, 754ul, 1439ul}) {
      unsigned long mins = dd * 1440 + mm; int y; unsigned m, d; civil((long)dd + 14245, &y, &m, &d);
      snprintf(exp, sizeof(exp), "%02u.%02u.%d %02lu:%02lu", d, m, y, mm / 60, mm % 60);
      string got = dec("DTM", {(unsigned)(mins & 0xff), (unsigned)((mins >> 8) & 0xff), (unsigned)((mins >> 16) & 0xff), (unsigned)(mins >> 24)}, &r);
      if (r != RESULT_OK || got != exp) fail("DTM minute count %lu: decoded as \"%s\" (%s), expected %s", mins, got.c_str(), getResultCode(r), exp);
    }
    g_per = 0;
    for (unsigned long mins : {47861280ul, 47946240ul, 0x80000000ul, 0xfffffffful}) {
      string got = dec("DTM", {(unsigned)(mins & 0xff), (unsigned)((mins >> 8) & 0xff), (unsigned)((mins >> 16) & 0xff), (unsigned)(mins >> 24)}, &r);
      if (r >= RESULT_OK) fail("DTM minute count %lu (0x%08lx) is beyond 31.12.2099 23:59 (0x02da4e1f, the end of the type's range) but is shown as \"%s\" instead of being rejected", mins, mins, got.c_str());
    }
  }
  if (want(run, "hda") || want(run, "hda3")) for (unsigned yb : {100u, 0x80u, 0xfeu}) {
    string got = dec("HDA:3", {1, 1, yb}, &r);
    if (r >= RESULT_OK) fail("HDA:3 bytes 01 01 %02x: year byte beyond 0x63 (31.12.2099, the end of the type's range) is shown as \"%s\" instead of being rejected", yb, got.c_str());
  }
  if (want(run, "hda") || want(run, "hda3") || want(run, "bda") || want(run, "bda3")) {
    ostringstream out; out << hex << setw(2) << setfill('0') << 0xab << ";";     // what a preceding HEX field leaves behind: hex mode
    string got = dec("HDA:3", {0xff, 0xff, 20}, &r, &out);
    if (got != "-.-.2020") fail("HDA:3 bytes ff ff 14 decoded after a field printed in hex on the same stream: \"%s\", on a fresh stream \"-.-.2020\"", got.c_str());
  }
  if (want(run, "min") || want(run, "rt_min")) for (unsigned n : {255u, 511u, 767u, 1023u, 1279u, 0u, 1440u}) {
    snprintf(exp, sizeof(exp), "%02u:%02u", n / 60, n % 60);
    string got = dec("MIN", {n & 0xff, n >> 8}, &r);
    if (r != RESULT_OK || got != exp) fail("MIN bytes %02x %02x (%u minutes since midnight): decoded as \"%s\" (%s), expected %s", n & 0xff, n >> 8, n, got.c_str(), getResultCode(r), exp);
  }
  if (want(run, "rt_hti") || want(run, "rt_bti") || want(run, "rt_vti")) for (const char* type : {"HTI", "BTI", "VTI"}) for (const char* text : {"12:24:30", "00:24:01", "23:24:59"}) {
    const DataType* t = DataTypeList::getInstance()->get(type);
    istringstream in(text); SlaveSymbolString o; o.push_back(0); size_t used = 0;
    result_t w = t->writeSymbols(0, 3, &in, &o, &used);
    if (w != RESULT_OK) fail("type %s: the valid time \"%s\" (which the bytes decode to) is rejected by the encoder: %s", type, text, getResultCode(w));
  }
  if (!g_failures) printf("NOT-REPRODUCED\n");
  return 0;
}
