// native replay for unit number: real DataType::writeSymbols / readSymbols of the built-in numeric types
// against an arbitrary-precision reference evaluation of the input text (C07, C12) and raw round trips (C05/C06)
#include <cstdio>
#include <cstdarg>
#include <cstring>
#include <cerrno>
#include <cmath>
#include <string>
#include <vector>
#include <sstream>
#include "lib/ebus/datatype.h"
#include "lib/ebus/symbol.h"
using namespace ebusd;
using std::string;
static int g_failures = 0;
static void fail(const char* fmt, ...) {
  if (g_failures++) return;
  va_list ap; va_start(ap, fmt); printf("REPRODUCED: "); vprintf(fmt, ap); printf("\n"); va_end(ap);
}
struct Ref { bool wellformed; bool isint; __int128 ival; long double fval; };
// reference reading of a decimal text: optional sign, digits, optional fraction (no exponent/hex here)
static Ref reference(const string& s) {
  Ref r = {false, true, 0, 0};
  size_t i = 0; bool neg = false;
  if (i < s.size() && (s[i] == '+' || s[i] == '-')) { neg = s[i] == '-'; i++; }
  size_t d0 = i; __int128 v = 0; long double f = 0; bool big = false;
  while (i < s.size() && isdigit((unsigned char)s[i])) { if (v > ((__int128)1 << 100)) big = true; else v = v * 10 + (s[i] - '0'); f = f * 10 + (s[i] - '0'); i++; }
  if (i == d0) return r;
  if (i < s.size() && s[i] == '.') { r.isint = false; i++; long double sc = 0.1L; while (i < s.size() && isdigit((unsigned char)s[i])) { f += sc * (s[i] - '0'); sc /= 10; i++; } }
  if (i != s.size()) return r;
  r.wellformed = true; r.ival = big ? ((__int128)1 << 101) : v; if (neg) { r.ival = -r.ival; f = -f; } r.fval = f;
  return r;
}
static string hexs(const SymbolString& s) { string o; char b[4]; for (size_t i = 0; i < s.size(); i++) { snprintf(b, 4, "%02x", s[i]); o += b; } return o; }

static void probe(const NumberDataType* t, const char* id, const string& text, bool staleErrno) {
  size_t len = t->getBitCount() < 8 ? 1 : t->getBitCount() / 8;
  MasterSymbolString out; out.push_back(0x10); out.push_back(0x08); out.push_back(0xb5); out.push_back(0x09); out.push_back(0);
  std::istringstream in(text);
  errno = staleErrno ? ERANGE : 0;
  size_t used = 0;
  result_t r = t->writeSymbols(0, len, &in, &out, &used);
  errno = 0;
  Ref ref = reference(text);
  bool isnullText = text == "-" && !t->hasFlag(REQ);
  if (isnullText) return;
  int div = t->getDivisor();
  bool sig = t->hasFlag(SIG), exp = t->hasFlag(EXP);
  if (exp) {
    if (r == RESULT_OK && (!ref.wellformed)) fail("%s: text \"%s\" (not a finite number) accepted, bytes %s", id, text.c_str(), hexs(out).c_str());
    return;
  }
  if (t->hasFlag(BCD) && t->hasFlag(FIX)) return;
  long double lim = powl(2, (long double)t->getBitCount());
  long double scaled = div == 1 ? (ref.isint ? (long double)ref.ival : truncl(ref.fval)) : (div < 0 ? roundl(ref.fval / -div) : roundl(ref.fval * div));
  bool inwidth = ref.wellformed && (sig ? (scaled >= -lim / 2 && scaled < lim / 2) : (scaled >= 0 && scaled < lim));
  if (r == RESULT_OK) {
    if (!ref.wellformed) { fail("%s: malformed/non-finite text \"%s\" accepted (errno before call %s), bytes %s", id, text.c_str(), staleErrno ? "ERANGE" : "0", hexs(out).c_str()); return; }
    if (!inwidth) { fail("%s: text \"%s\" is outside the %zu-bit %s range but was accepted and encoded as %s (wrapped/truncated)", id, text.c_str(), t->getBitCount(), sig ? "signed" : "unsigned", hexs(out).c_str()); return; }
    // decode again and compare within one resolution step
    std::ostringstream dec; SymbolString& o2 = out;
    out.adjustHeader();
    result_t r2 = t->readSymbols(0, len, out, OF_NONE, &dec);
    if (r2 != RESULT_OK) { fail("%s: text \"%s\" accepted but the encoded bytes %s do not decode (%d)", id, text.c_str(), hexs(out).c_str(), r2); return; }
    long double back = strtold(dec.str().c_str(), nullptr);
    long double step = div > 1 ? 1.0L / div : div < 0 ? -div : 1;
    if (dec.str() != "-" && fabsl(back - ref.fval) > step * 1.0001L) fail("%s: text \"%s\" encoded to %s which decodes to %s (more than one step away)", id, text.c_str(), hexs(out).c_str(), dec.str().c_str());
  } else if (ref.wellformed && inwidth && staleErrno) {
    // compare with the same call in a "fresh" state
    MasterSymbolString out2; for (int i = 0; i < 5; i++) out2.push_back(out[i]);
    std::istringstream in2(text); errno = 0;
    result_t rf = t->writeSymbols(0, len, &in2, &out2, &used);
    if (rf == RESULT_OK) fail("%s: text \"%s\" is accepted in a fresh state but rejected (%d) when errno was left at ERANGE by an earlier operation", id, text.c_str(), r);
  }
}

int main(int argc, char** argv) {
  string what = argc > 1 ? argv[1] : "";
  const char* ids[] = {"UCH", "U1L", "SCH", "S1L", "D1B", "D1C", "D2B", "D2C", "FLT", "UIN", "UIR", "U2L", "SIN", "S2L", "U3N", "U3L", "S3N", "S3L", "ULG", "ULR", "U4L", "SLG", "S4L", "BCD", "BCD:2", "HCD:2", "EXP"};
  std::vector<string> texts = {"0", "1", "-1", "-0", "127", "128", "129", "-128", "-129", "254", "255", "256", "257", "32767", "32768", "-32768", "-32769", "65534", "65535", "65536", "65537",
    "8388607", "8388608", "16777215", "16777216", "16777217", "2147483647", "2147483648", "-2147483648", "-2147483649", "4294967294", "4294967295", "4294967296", "4294967297", "4289729338",
    "9223372036854775807", "9223372036854775808", "-9223372036854775808", "-9223372036854775809", "18446744073709551615", "18446744073709551616", "18446744073709551617", "4503603922337336",
    "340282366920938463463374607431768211456", "nan", "NaN", "inf", "-inf", "infinity", "1e400", "-1e400", "12abc", "abc", "", " ", "1.5", "-1.5", "0.5", "100.25", "99", "100", "9999", "10000", "-2", "2", "3.999", "12.7", "-12.7"};
  if (what.rfind("parseInput", 0) == 0 || what == "checkValueRange" || what == "all") {
    for (auto id : ids) {
      const DataType* dt = DataTypeList::getInstance()->get(id);
      if (!dt || !dt->isNumeric()) { continue; }
      auto* t = reinterpret_cast<const NumberDataType*>(dt);
      for (auto& s : texts) for (int st = 0; st < 2; st++) probe(t, id, s, st == 1);
    }
  }
  if (what.rfind("readRawValue", 0) == 0 || what.rfind("writeRawValue", 0) == 0 || what.rfind("roundtrip", 0) == 0 || what == "all") {
    // raw round trip: every pattern of 1- and 2-byte types, sampled wider ones: decode OK => encode(text) reproduces the bytes
    const char* rids[] = {"UCH", "U1L", "SCH", "S1L", "D1C", "BCD", "HCD:1", "PIN", "UIN", "UIR", "SIN", "SIR", "D2B", "D2C", "FLT", "BCD:2", "HCD:2", "U3N", "S3N", "BCD:3", "ULG", "SLG", "BCD:4", "HCD", "BI0", "BI3", "BI7"};
    for (auto id : rids) {
      const DataType* dt = DataTypeList::getInstance()->get(id);
      if (!dt) continue;
      size_t len = dt->getBitCount() < 8 ? 1 : dt->getBitCount() / 8;
      unsigned long total = len <= 2 ? (1ul << (8 * len)) : 200000;
      for (unsigned long n = 0; n < total; n++) {
        unsigned long pat = len <= 2 ? n : (n * 2654435761ul) ^ (n << 13);
        SlaveSymbolString in; in.push_back((symbol_t)len); for (size_t i = 0; i < len; i++) in.push_back((symbol_t)(pat >> (8 * i)));
        std::ostringstream txt;
        if (dt->readSymbols(0, len, in, OF_NONE, &txt) != RESULT_OK) continue;
        SlaveSymbolString out; out.push_back(0); std::istringstream is(txt.str()); size_t used;
        result_t w = dt->writeSymbols(0, len, &is, &out, &used);
        if (w != RESULT_OK) { fail("%s: bytes %s decode to \"%s\" which cannot be encoded again (%d)", id, hexs(in).c_str() + 2, txt.str().c_str(), w); break; }
        if (txt.str() == "-") continue;
        symbol_t mask = dt->getBitCount() < 8 ? (symbol_t)(((1u << dt->getBitCount()) - 1) << reinterpret_cast<const NumberDataType*>(dt)->getFirstBit()) : 0xff;
        bool same = true; for (size_t i = 0; i < len; i++) same = same && ((out[1 + i] & mask) == (in[1 + i] & mask));
        if (!same && reinterpret_cast<const NumberDataType*>(dt)->getDivisor() == 1) { fail("%s: bytes %s decode to \"%s\" but that text encodes to %s", id, hexs(in).c_str() + 2, txt.str().c_str(), hexs(out).c_str() + 2); break; }
      }
    }
  }
    // a field divisor combined with the divisor of the base type: beyond MAX_DIVISOR the definition has to be rejected
  for (const char* id : {"D2C", "D2B", "FLT"}) {
    const NumberDataType* base = (const NumberDataType*)DataTypeList::getInstance()->get(id);
    for (int div : {500000000, 1000000000, 268435456, 4294968}) {
      const NumberDataType* d = nullptr; long long product = (long long)div * base->getDivisor();
      result_t r = base->derive(div, 0, &d);
      if (product > 1000000000LL && r == RESULT_OK) fail("base type %s (divisor %d) with field divisor %d: the product %lld is beyond MAX_DIVISOR but the definition is accepted with divisor %d", id, base->getDivisor(), div, product, d ? d->getDivisor() : 0);
    }
  }
  if (!g_failures) printf("NOT-REPRODUCED\n");
  fflush(stdout);
  return g_failures ? 1 : 0;
}
