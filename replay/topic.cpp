// native replay for unit topic: real StringReplacer::parse / get / match on a battery of matchable templates and identifier triples
#include <cstdio>
#include <cstdarg>
#include <string>
#include <vector>
#include "lib/ebus/stringhelper.h"
using namespace ebusd;
using std::string;
static int g_failures = 0;
static void fail(const char* fmt, ...) { if (g_failures++ >= 4) return; va_list ap; va_start(ap, fmt); printf("REPRODUCED: "); vprintf(fmt, ap); printf("\n"); va_end(ap); }
int main(int argc, char** argv) {
  const char* consts[] = {"/", "e/", "/x", "-", "//"};
  const char* fields[] = {"%circuit", "%name", "%field", "%{circuit}", "%{name}"};
  const char* idents[] = {"", "a", "ab", "b_", "0"};
  std::vector<string> templates;
  // K F K F K F, F K F K F and shorter prefixes, every field at most once
  for (auto k0 : consts) for (int lead = 0; lead < 2; lead++)
    for (int f0 = 0; f0 < 3; f0++) for (int f1 = 0; f1 < 3; f1++) for (int f2 = 0; f2 < 4; f2++) for (auto k1 : consts) {
      if ((k1[0] >= 'a' && k1[0] <= 'z') || k1[0] == '_') continue;   // a constant after a field starts with a non-identifier character
      if (f0 == f1 || (f2 < 3 && (f2 == f0 || f2 == f1))) continue;
      string t = lead ? string(k0) : "";
      t += fields[f0]; t += k1; t += fields[f1];
      if (f2 < 3) { t += "/"; t += fields[f2]; }
      templates.push_back(t);
      templates.push_back(t + "/z");
    }
  templates.push_back("ebusd/%circuit/%name"); templates.push_back("ebusd/%{circuit}x/%name/%field"); templates.push_back("%name");
  for (const auto& t : templates) {
    StringReplacer sr;
    if (!sr.parse(t, true, true)) { fail("template \"%s\" rejected", t.c_str()); continue; }
    if (!sr.checkMatchability()) continue;
    for (auto c : idents) for (auto n : idents) for (auto f : idents) {
      // reference: template with values, cut before the first field without value
      string expect; bool sentc = false, sentn = false, sentf = false, stopped = false;
      for (size_t i = 0; i < t.size() && !stopped;) {
        if (t[i] == '%') {
          size_t j = i + 1; bool brace = j < t.size() && t[j] == '{'; if (brace) j++;
          size_t e = j; while (e < t.size() && ((t[e] >= 'a' && t[e] <= 'z') || t[e] == '_')) e++;
          string name = t.substr(j, e - j); if (brace && e < t.size() && t[e] == '}') e++;
          const char* v = name == "circuit" ? c : name == "name" ? n : f;
          if (!*v) { stopped = true; break; }
          expect += v; (name == "circuit" ? sentc : name == "name" ? sentn : sentf) = true; i = e;
        } else { expect += t[i]; i++; }
      }
      string topic = sr.get(c, n, f);
      if (topic != expect) { fail("template \"%s\" with (%s,%s,%s): topic \"%s\", expected \"%s\"", t.c_str(), c, n, f, topic.c_str(), expect.c_str()); continue; }
      string rc, rn, rf;
      ssize_t r = sr.match(topic, &rc, &rn, &rf);
      if (rc != (sentc ? c : "") || rn != (sentn ? n : "") || rf != (sentf ? f : ""))
        fail("template \"%s\" with (%s,%s,%s): topic \"%s\" matched back to (%s,%s,%s), result %d", t.c_str(), c, n, f, topic.c_str(), rc.c_str(), rn.c_str(), rf.c_str(), static_cast<int>(r));
      else if (!stopped && r < 0) fail("template \"%s\" with (%s,%s,%s): complete topic \"%s\" reported as incomplete (%d)", t.c_str(), c, n, f, topic.c_str(), static_cast<int>(r));
    }
  }
  if (!g_failures) printf("NOT-REPRODUCED\n");
  fflush(stdout);
  return g_failures ? 1 : 0;
}
