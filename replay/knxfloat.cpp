// native replay for unit knxfloat: real uint16ToFloat / floatToUint16 (C05, C06, C07)
#include <cstdio>
#include <cstdarg>
#include <cmath>
#include "lib/ebus/datatype.h"
using namespace ebusd;
static int g_failures = 0;
static void fail(const char* fmt, ...) { if (g_failures++ >= 6) return; va_list ap; va_start(ap, fmt); printf("REPRODUCED: "); vprintf(fmt, ap); printf("\n"); va_end(ap); }
int main(int argc, char** argv) {
  for (float v : {0.004f, -0.004f, 0.0049f, 1e-20f}) { uint16_t e = floatToUint16(v); if (e == 0x7fff) fail("floatToUint16(%g) = 7fff (the invalid value) although %g is within half a step of 0", v, v); }
  int shown = 0;
  for (unsigned u = 1; u < 65536; u++) {
    if (u == 0x7fff || u == 0xf800) continue;
    float f = uint16ToFloat((uint16_t)u); uint16_t w = floatToUint16(f); float g = uint16ToFloat(w);
    if (!(f == g) && shown++ < 2) fail("pattern %04x decodes to %.2f, encoding that value gives %04x = %.2f (not a fixed point)", u, f, w, g);
  }
  for (float v : {20.47f, 40.97f, -327.68f, 46039.04f, 670433.25f, -670760.94f, 131481.6f}) {
    uint16_t e = floatToUint16(v); float d = uint16ToFloat(e); double step = 0.01 * (1 << ((e >> 11) & 0xf));
    if (e == 0x7fff || fabs((double)d - (double)v) > step + fabs(v) / 4194304.0) fail("floatToUint16(%g) = %04x decodes to %g (more than one step of %g away)", v, e, d, step);
  }
  if (!g_failures) printf("NOT-REPRODUCED\n");
  return 0;
}
