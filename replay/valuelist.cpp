// native replay for unit valuelist: real ValueListDataField::writeSymbols / readSymbols (C05, C06, C07)
#include <cstdio>
#include <cstdarg>
#include <string>
#include <map>
#include <sstream>
#include "lib/ebus/data.h"
#include "lib/ebus/datatype.h"
using namespace ebusd; using namespace std;
static int g_failures = 0;
static void fail(const char* fmt, ...) { if (g_failures++ >= 6) return; va_list ap; va_start(ap, fmt); printf("REPRODUCED: "); vprintf(fmt, ap); printf("\n"); va_end(ap); }
int main(int argc, char** argv) {
  map<string, string> attrs; map<unsigned int, string> values = {{0, "off"}, {1, "on"}, {2, "auto"}};
  ValueListDataField f("mode", attrs, DataTypeList::getInstance()->get("UCH"), pt_slaveData, 1, values);
  for (const char* text : {"4294967297", "4294967296", "8589934594", "18446744073709551617", "3", "x", "-4294967295", "256", "257"}) {
    istringstream in(text); SlaveSymbolString out; out.push_back(0); size_t used = 0;
    result_t r = f.writeSymbols(0, &in, &out, &used);
    if (r >= RESULT_OK) fail("value list 0=off;1=on;2=auto on UCH: input \"%s\" is no name and no listed value, but it is accepted and encoded as %02x", text, (unsigned)out.dataAt(0));
  }
  for (auto& kv : values) for (string text : {kv.second, to_string(kv.first)}) {
    istringstream in(text); SlaveSymbolString out; out.push_back(0); size_t used = 0;
    result_t r = f.writeSymbols(0, &in, &out, &used);
    if (r != RESULT_OK || out.dataAt(0) != kv.first) fail("value list: input \"%s\" encoded as %02x (%s), expected %02x", text.c_str(), (unsigned)out.dataAt(0), getResultCode(r), kv.first);
  }
  // names that read as numbers: the name is looked up first (decode(encode) round trip)
  {
    map<unsigned int, string> v2 = {{0, "1"}, {1, "2"}, {2, "1.5 h"}, {3, "4"}};
    ValueListDataField g("steps", attrs, DataTypeList::getInstance()->get("UCH"), pt_slaveData, 1, v2);
    for (auto& kv : v2) {
      istringstream in(kv.second); SlaveSymbolString out; out.push_back(0); size_t used = 0;
      result_t r = g.writeSymbols(0, &in, &out, &used);
      if (r != RESULT_OK || out.dataAt(0) != kv.first) fail("value list 0=1;1=2;2=1.5 h;3=4 on UCH: the name \"%s\" of value %u is encoded as %02x (%s)", kv.second.c_str(), kv.first, (unsigned)out.dataAt(0), getResultCode(r));
    }
  }
  if (!g_failures) printf("NOT-REPRODUCED\n");
  return 0;
}
