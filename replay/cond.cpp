// native replay for unit cond: real DataFieldSet::hasField and SimpleCondition::isTrue / Message::storeLastData
#include <cstdio>
#include <cstdarg>
#include <string>
#include <vector>
#include <map>
#include "lib/ebus/data.h"
#include "lib/ebus/datatype.h"
#include "lib/ebus/message.h"
using namespace ebusd;
static int g_failures = 0;
static void fail(const char* fmt, ...) { if (g_failures++ >= 4) return; va_list ap; va_start(ap, fmt); printf("REPRODUCED: "); vprintf(fmt, ap); printf("\n"); va_end(ap); }

static const SingleDataField* mk(const char* name, const char* type) {
  std::map<std::string, std::string> attrs;
  const DataType* dt = DataTypeList::getInstance()->get(type);
  if (dt->isNumeric()) return new SingleDataField(name, attrs, dt, pt_slaveData, dt->getBitCount() / 8);
  return new SingleDataField(name, attrs, dt, pt_slaveData, 4);
}
static bool ref(const std::vector<std::pair<std::string, bool>>& f, const char* name, bool numeric) {
  for (auto& x : f) if (x.second == numeric && (name == nullptr || x.first == name)) return true;
  return false;
}
int main(int argc, char** argv) {
  struct Def { std::vector<std::pair<std::string, const char*>> fields; };
  std::vector<Def> sets = {
    {{{"a", "UCH"}, {"b", "UCH"}}}, {{{"a", "UCH"}, {"s", "STR"}}}, {{{"s", "STR"}, {"t", "STR"}}}, {{{"a", "UCH"}, {"b", "UIN"}, {"c", "SCH"}}},
  };
  for (auto& d : sets) {
    std::vector<const SingleDataField*> fs; std::vector<std::pair<std::string, bool>> desc; std::string names;
    for (auto& f : d.fields) { fs.push_back(mk(f.first.c_str(), f.second)); desc.push_back({f.first, DataTypeList::getInstance()->get(f.second)->isNumeric()}); names += f.first + ":" + f.second + " "; }
    DataFieldSet set("set", fs);
    for (const char* name : {(const char*)nullptr, "a", "b", "s", "zz"}) for (bool numeric : {true, false}) {
      bool got = set.hasField(name, numeric), exp = ref(desc, name, numeric);
      if (got != exp) fail("field set [%s]: hasField(%s, %s) = %d, but a %s field %s%s %s", names.c_str(), name ? name : "<any>", numeric ? "numeric" : "string", got,
                           numeric ? "numeric" : "string", name ? "named " : "", name ? name : "", exp ? "exists" : "does not exist");
    }
  }
  // condition tracking through updates within one second
  {
    std::map<std::string, std::string> attrs;
    const DataField* data = mk("temp", "UCH");
    std::vector<symbol_t> id = {0xb5, 0x09, 0x0d};
    Message msg("file", "cir", "", "temp", false, false, attrs, SYN, 0x15, id, data, false);
    SimpleNumericCondition cond("c", "c", "cir", "", "temp", SYN, "", std::vector<unsigned int>{10, 20});
    cond.m_message = &msg;
    MasterSymbolString m; for (symbol_t v : {0x31, 0x15, 0xb5, 0x09, 0x01, 0x0d}) m.push_back(v);
    for (int attempt = 0; attempt < 3 && !g_failures; attempt++) {
      time_t t0 = time(nullptr);
      SlaveSymbolString in; in.push_back(0x01); in.push_back(15);    // value 15: inside 10..20
      SlaveSymbolString out; out.push_back(0x01); out.push_back(99);  // value 99: outside
      msg.storeLastData(m, in); bool a = cond.isTrue();
      msg.storeLastData(m, out); bool b = cond.isTrue();
      msg.storeLastData(m, in); bool c = cond.isTrue();
      if (time(nullptr) != t0) continue;   // a second boundary was crossed, try again
      if (!(a && !b && c)) fail("condition temp in 10..20: updates 15, 99, 15 stored within the same second: isTrue() = %d, %d, %d (expected 1, 0, 1)", a, b, c);
      break;
    }
  }
  if (!g_failures) printf("NOT-REPRODUCED\n");
  fflush(stdout);
  return g_failures ? 1 : 0;
}
