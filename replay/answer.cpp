// native replay for unit answer: real setAnswer/getAnswer against a reference longest-prefix table
#include "fakes.h"
#include <map>
struct Reg { symbol_t src, dst, pb, sb; std::vector<symbol_t> id; std::vector<symbol_t> answer; };
// reference: longest registered id prefix; src-specific before any; master dst needs matching tail length
static const Reg* reference(const std::vector<Reg>& regs, const std::vector<symbol_t>& cmd) {
  size_t nn = cmd[4];
  for (int L = 4; L >= 0; L--) {
    if ((size_t)L > nn) continue;
    const Reg* spec = nullptr; const Reg* any = nullptr;
    for (auto& r : regs) {   // later registrations replace earlier ones of the same key
      if (r.dst != cmd[1] || r.pb != cmd[2] || r.sb != cmd[3] || r.id.size() != (size_t)L) continue;
      bool m = true; for (int i = 0; i < L; i++) m = m && r.id[i] == cmd[5 + i];
      if (!m) continue;
      if (r.src == SYN) any = &r; else if (r.src == cmd[0]) spec = &r;
    }
    const Reg* c = spec ? spec : any;
    if (!c) continue;
    if (isMaster(cmd[1])) { size_t ds = c->answer.empty() ? 0 : std::min<size_t>(c->answer.size() - 1, c->answer[0]); if (L + ds != nn) continue; }
    return c;
  }
  return nullptr;
}
static void probe(DirectProtocolHandler& h, const std::vector<Reg>& regs, std::vector<symbol_t> cmd) {
  h.m_command.clear(); for (auto s : cmd) h.m_command.push_back(s);
  h.m_response.clear();
  bool got = h.getAnswer();
  const Reg* ref = reference(regs, cmd);
  if (got != (ref != nullptr)) { fail("telegram %s: getAnswer() = %d but reference lookup %s (registered id length %zu)", hexs(cmd).c_str(), got, ref ? "finds an answer" : "finds none", ref ? ref->id.size() : 0); return; }
  if (got) {
    std::vector<symbol_t> resp; for (size_t i = 0; i < h.m_response.size(); i++) resp.push_back(h.m_response[i]);
    if (resp != ref->answer) fail("telegram %s: answer %s chosen, reference (longest prefix) %s", hexs(cmd).c_str(), hexs(resp).c_str(), hexs(ref->answer).c_str());
  }
}
int main(int argc, char** argv) {
  FakeDevice* dev = new FakeDevice(); FakeListener lis; ebus_protocol_config_t cfg = defaultConfig();
  DirectProtocolHandler& h = *new DirectProtocolHandler(cfg, dev, &lis);  // never destroyed (owns the device, would join a thread)
  std::vector<Reg> regs = {
    {SYN, 0x36, 0xb5, 0x09, {0x0d}, {0x01, 0x11}},
    {SYN, 0x36, 0xb5, 0x09, {0x0d, 0x2a}, {0x02, 0x21, 0x22}},
    {0x10, 0x36, 0xb5, 0x09, {0x0d, 0x2a}, {0x01, 0x33}},
    {SYN, 0x36, 0x07, 0x04, {}, {0x03, 0x01, 0x02, 0x03}},
    {SYN, 0x36, 0xb5, 0x10, {0x01, 0x02, 0x03, 0x04}, {0x00}},
    {SYN, 0x31, 0xb5, 0x11, {0x01}, {0x02, 0x00, 0x00}},   // master destination: tail of 2 bytes
  };
  for (auto& r : regs) {
    SlaveSymbolString a; for (auto s : r.answer) a.push_back(s);
    if (!h.setAnswer(r.src, r.dst, r.pb, r.sb, r.id.data(), r.id.size(), a)) fail("setAnswer rejected a valid registration");
  }
  // every NN from 0..20 with ids that match / extend / differ from the registered ones
  for (int nn = 0; nn <= 20; nn++) for (int variant = 0; variant < 6; variant++) for (symbol_t src : {(symbol_t)0x10, (symbol_t)0x03}) {
    std::vector<symbol_t> cmd = {src, 0x36, 0xb5, 0x09, (symbol_t)nn};
    const symbol_t ids[6][4] = {{0x0d, 0x2a, 0x00, 0x01}, {0x0d, 0x2b, 0x00, 0x00}, {0x0e, 0x00, 0x00, 0x00}, {0x0d, 0x2a, 0xff, 0xff}, {0x01, 0x02, 0x03, 0x04}, {0x0d, 0x00, 0x00, 0x00}};
    for (int i = 0; i < nn; i++) cmd.push_back(i < 4 ? ids[variant][i] : (symbol_t)(0x40 + i));
    probe(h, regs, cmd);
    cmd[2] = 0x07; cmd[3] = 0x04; probe(h, regs, cmd);
    cmd[2] = 0xb5; cmd[3] = 0x10; probe(h, regs, cmd);
    cmd[1] = 0x31; cmd[3] = 0x11; probe(h, regs, cmd);
  }
  if (!g_failures) printf("NOT-REPRODUCED\n");
  fflush(stdout);
  return g_failures ? 1 : 0;
}
