// native replay for unit poll: real MessagePriorityQueue / Message::isLessPollWeight / MessageMap::getNextPoll
#include <cstdio>
#include <cstdarg>
#include <string>
#include <vector>
#include <map>
#include "lib/ebus/data.h"
#include "lib/ebus/datatype.h"
#include "lib/ebus/message.h"
using namespace ebusd;
static int g_failures = 0;
static void fail(const char* fmt, ...) { if (g_failures++ >= 4) return; va_list ap; va_start(ap, fmt); printf("REPRODUCED: "); vprintf(fmt, ap); printf("\n"); va_end(ap); }
static Message* mk(const char* name, unsigned order, size_t prio) {
  std::map<std::string, std::string> attrs;
  const DataField* data = new SingleDataField("v", attrs, DataTypeList::getInstance()->get("UCH"), pt_slaveData, 1);
  std::vector<symbol_t> id = {0xb5, 0x09, 0x0d};
  Message* m = new Message("file", "cir", "", name, false, false, attrs, SYN, 0x15, id, data, false, prio);
  m->m_pollOrder = order; m->m_pollPriority = prio; m->m_lastPollTime = 0;
  return m;
}
int main(int argc, char** argv) {
  // queue with poll orders 1,5,2,6,7,3,4 pushed in this order (a valid heap layout), then the element with order 5 is pushed again
  const unsigned orders[] = {1, 5, 2, 6, 7, 3, 4};
  MessagePriorityQueue q; std::vector<Message*> ms;
  for (unsigned o : orders) { char n[8]; snprintf(n, 8, "m%u", o); ms.push_back(mk(n, o, 1)); }
  for (auto m : ms) q.push(m);
  // exhaustive: re-push every element once (as addPollMessage does for an already queued message), then drain and check the order
  for (size_t again = 0; again < ms.size() && !g_failures; again++) {
    MessagePriorityQueue q2; for (auto m : ms) q2.push(m);
    q2.push(ms[again]);
    std::string seq; unsigned last = 0; bool sorted = true; size_t count = 0;
    while (!q2.empty()) { Message* t = q2.top(); q2.pop(); char b[8]; snprintf(b, 8, "%u ", t->m_pollOrder); seq += b; if (t->m_pollOrder < last) sorted = false; last = t->m_pollOrder; count++; }
    if (!sorted || count != ms.size()) fail("poll queue with orders 1 5 2 6 7 3 4: after pushing the already queued message of order %u again, messages are selected in order [%s] (not by ascending poll order, %zu of %zu entries)", orders[again], seq.c_str(), count, ms.size());
  }
  // a poll message that is added (with a priority from its definition) after polling went on for a while must not be preferred until it has caught up
  {
    MessageMap mm("");
    std::map<std::string, std::string> attrs;
    auto def = [&](const char* name, symbol_t idb, size_t prio) {
      const DataField* data = new SingleDataField("v", attrs, DataTypeList::getInstance()->get("UCH"), pt_slaveData, 1);
      std::vector<symbol_t> id = {0xb5, 0x09, idb};
      return new Message("file", "cir", "", name, false, false, attrs, SYN, 0x15, id, data, true, prio);
    };
    Message* a = def("a", 0x01, 1); Message* b = def("b", 0x02, 1);
    mm.addPollMessage(false, a); mm.addPollMessage(false, b);
    for (int i = 0; i < 1000; i++) mm.getNextPoll();
    Message* c = def("c", 0x03, 1);                 // e.g. a configuration file loaded later for a newly scanned device
    mm.addPollMessage(false, c);
    int run = 0, others = 0;
    for (int i = 0; i < 300; i++) { Message* n = mm.getNextPoll(); if (n == c && others == 0) run++; else others++; }
    if (run > 20) fail("three poll messages of priority 1, the third one added after 1000 selections: it is selected %d times in a row, the other two are not polled at all meanwhile (waiting time grows with the polling history)", run);
  }
  if (!g_failures) printf("NOT-REPRODUCED\n");
  fflush(stdout);
  return g_failures ? 1 : 0;
}
