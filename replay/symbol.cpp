// native replay driver for unit symbol: real functions of /repo vs. the same spec functions (spec.h)
#include <cstdio>
#include <cstdarg>
#include <cstdlib>
#include <cstring>
#include <string>
#include <vector>
#include "lib/ebus/symbol.h"
#include "lib/ebus/result.h"
#include "sym_spec.h"
using namespace ebusd;
using std::string;

static int failures = 0;
static void fail(const char* fmt, ...) {
  if (failures++) return;
  va_list ap; va_start(ap, fmt); printf("REPRODUCED: "); vprintf(fmt, ap); printf("\n"); va_end(ap);
}
static symbol_t spec_fold(const std::vector<symbol_t>& v) { symbol_t c = 0; for (auto s : v) c = spec_crc_esc(c, s); return c; }
static string hex(const std::vector<symbol_t>& v) { string s; char b[4]; for (auto x : v) { snprintf(b, 4, "%02x", x); s += b; } return s; }

static void chk_calc(const std::vector<symbol_t>& v) {
  MasterSymbolString m; for (auto s : v) m.push_back(s);
  symbol_t real = m.calcCrc(), spec = spec_fold(v);
  if (real != spec) fail("calcCrc(%s) = %02x, specification (CRC-8 0x9B over escaped bytes) = %02x", hex(v).c_str(), real, spec);
}
// reference unescape
static int spec_unescape(const std::vector<symbol_t>& in, std::vector<symbol_t>* out) {
  bool esc = false;
  for (auto v : in) {
    if (esc) { if (v > 1) return -1; out->push_back(v == 0 ? 0xA9 : 0xAA); esc = false; }
    else if (v == 0xA9) esc = true; else if (v == 0xAA) return -1; else out->push_back(v);
  }
  return esc ? -1 : 0;
}
static void chk_esc(const std::vector<symbol_t>& in) {
  MasterSymbolString m; result_t r = m.parseHexEscaped(hex(in));
  std::vector<symbol_t> exp; int s = spec_unescape(in, &exp);
  if ((r == RESULT_OK) != (s == 0)) { fail("parseHexEscaped(%s) result %d, reference acceptor %s", hex(in).c_str(), r, s == 0 ? "accepts" : "rejects"); return; }
  if (r != RESULT_OK && r != RESULT_ERR_ESC) { fail("parseHexEscaped(%s) result %d instead of RESULT_ERR_ESC", hex(in).c_str(), r); return; }
  if (r == RESULT_OK) {
    if (m.size() != exp.size()) { fail("parseHexEscaped(%s) yields %zu symbols, reference %zu", hex(in).c_str(), m.size(), exp.size()); return; }
    for (size_t i = 0; i < exp.size(); i++) if (m[i] != exp[i]) { fail("parseHexEscaped(%s)[%zu] = %02x, reference %02x", hex(in).c_str(), i, m[i], exp[i]); return; }
  }
}

int main(int argc, char** argv) {
  string what = argc > 1 ? argv[1] : "";
  std::vector<long> a; for (int i = 2; i < argc; i++) a.push_back(strtol(argv[i], nullptr, 0));
  if (what == "updateCrc") {
    for (int c = 0; c < 256; c++) for (int v = 0; v < 256; v++) {
      symbol_t x = (symbol_t)c; SymbolString::updateCrc((symbol_t)v, &x);
      if (x != spec_crc_step((symbol_t)c, (symbol_t)v)) fail("updateCrc(value=0x%02x, crc=0x%02x) -> 0x%02x, polynomial division gives 0x%02x", v, c, x, spec_crc_step((symbol_t)c, (symbol_t)v));
    }
  } else if (what == "calcCrc") {
    for (int x = 0; x < 256; x++) chk_calc({(symbol_t)x});
    for (int x = 0; x < 256; x++) for (int y = 0; y < 256; y++) chk_calc({(symbol_t)x, (symbol_t)y});
    for (int x = 0; x < 256; x++) chk_calc({0x10, 0x08, 0xb5, (symbol_t)x, 0xa9, 0xaa, (symbol_t)(x * 7)});
    chk_calc({});
  } else if (what == "addr") {
    for (int x = 0; x < 256; x++) {
      symbol_t s = (symbol_t)x;
      if (isMaster(s) != spec_is_master(s)) fail("isMaster(0x%02x) = %d, spec %d", x, isMaster(s), spec_is_master(s));
      if (getMasterNumber(s) != spec_master_number(s)) fail("getMasterNumber(0x%02x) = %u, spec %u", x, getMasterNumber(s), spec_master_number(s));
      if (isSlaveMaster(s) != spec_is_master((symbol_t)(s - 5))) fail("isSlaveMaster(0x%02x) = %d, spec %d", x, isSlaveMaster(s), spec_is_master((symbol_t)(s - 5)));
      for (int b = 0; b < 2; b++) { bool e = s != 0xAA && s != 0xA9 && (b || s != 0xFE); if (isValidAddress(s, b) != e) fail("isValidAddress(0x%02x, %d) = %d, spec %d", x, b, isValidAddress(s, b), e); }
      symbol_t es = spec_is_master(s) ? (symbol_t)(s + 5) : (s == 0xAA || s == 0xA9 || s == 0xFE) ? 0xAA : s;
      if (getSlaveAddress(s) != es) fail("getSlaveAddress(0x%02x) = 0x%02x, spec 0x%02x", x, getSlaveAddress(s), es);
      symbol_t em = spec_is_master(s) ? s : spec_is_master((symbol_t)(s - 5)) ? (symbol_t)(s - 5) : 0xAA;
      if (getMasterAddress(s) != em) fail("getMasterAddress(0x%02x) = 0x%02x, spec 0x%02x", x, getMasterAddress(s), em);
    }
  } else if (what == "parseHexEscaped") {
    for (int x = 0; x < 256; x++) chk_esc({(symbol_t)x});
    for (int x = 0; x < 256; x++) for (int y = 0; y < 256; y++) chk_esc({(symbol_t)x, (symbol_t)y});
    const symbol_t al[] = {0x00, 0x01, 0x02, 0xa9, 0xaa, 0x55};
    for (int i = 0; i < 6 * 6 * 6 * 6; i++) chk_esc({al[i % 6], al[(i / 6) % 6], al[(i / 36) % 6], al[(i / 216) % 6]});
  } else if (what == "parseHex") {
    for (int x = 0; x < 256; x++) for (int y = 0; y < 256; y += 5) {
      std::vector<symbol_t> in{(symbol_t)x, (symbol_t)y}; MasterSymbolString m; result_t r = m.parseHex(hex(in));
      if (r != RESULT_OK || m.size() != 2 || m[0] != x || m[1] != y) fail("parseHex(%s) -> result %d size %zu", hex(in).c_str(), r, m.size());
    }
  } else if (what == "parseInt") {
    const char* t[] = {"0", "9", "10", "ff", "0f", "a", "-1", "1x", " 1", "", "x", "256", "4294967296", "00"};
    for (auto s : t) for (int base : {10, 16}) {
      result_t r; unsigned v = parseInt(s, base, 0, 0xff, &r); char* e; unsigned long ref = strtoul(s, &e, base);
      bool ok = e != s && *e == 0 && ref <= 0xff;
      if ((r == RESULT_OK) != ok || (ok && v != ref)) fail("parseInt(\"%s\", base %d, 0, 255) -> value %u result %d, reference %s %lu", s, base, v, r, ok ? "ok" : "reject", ref);
    }
  }
  if (!failures) printf("NOT-REPRODUCED\n");
  return failures ? 1 : 0;
}
