// shared fakes for native replay drivers: scripted Device and recording ProtocolListener
#ifndef REPLAY_FAKES_H
#define REPLAY_FAKES_H
#include <cstdio>
#include <cstdarg>
#include <deque>
#include <vector>
#include <string>
#include "lib/ebus/device.h"
#include "lib/ebus/protocol.h"
#include "lib/ebus/protocol_direct.h"
using namespace ebusd;

static int g_failures = 0;
static void fail(const char* fmt, ...) {
  if (g_failures++ >= 4) return;
  va_list ap; va_start(ap, fmt); printf("REPRODUCED: "); vprintf(fmt, ap); printf("\n"); va_end(ap);
}
struct RecvEvent { result_t result; symbol_t symbol; ArbitrationState arb; };
class FakeDevice : public Device {
 public:
  FakeDevice() : Device(), m_arbitrating(false) {}
  const char* getName() const override { return "fake"; }
  void formatInfo(std::ostringstream* output, bool verbose, bool prefix) override {}
  result_t open() override { return RESULT_OK; }
  bool isValid() override { return true; }
  result_t send(symbol_t value) override { sent.push_back(value); return sendResult; }
  result_t recv(unsigned int timeout, symbol_t* value, ArbitrationState* arbitrationState) override {
    lastTimeout = timeout;
    if (echoMode && !sent.empty() && echoed < sent.size()) {   // echo of the symbol ebusd sent last
      symbol_t v = sent[echoed++]; result_t er = echoResults.empty() ? RESULT_OK : echoResults.front(); if (!echoResults.empty()) echoResults.pop_front();
      *value = v; *arbitrationState = as_none; return er;
    }
    if (script.empty()) return RESULT_ERR_TIMEOUT;
    RecvEvent e = script.front(); script.pop_front();
    *value = e.symbol; *arbitrationState = e.arb; return e.result;
  }
  result_t startArbitration(symbol_t masterAddress) override { starts.push_back(masterAddress); m_arbitrating = masterAddress != SYN; return startResult; }
  bool isArbitrating() const override { return m_arbitrating; }
  bool cancelRunningArbitration(ArbitrationState* arbitrationState) override { m_arbitrating = false; return true; }
  bool echoMode = false; size_t echoed = 0; std::deque<result_t> echoResults;
  std::deque<RecvEvent> script; std::vector<symbol_t> sent, starts; bool m_arbitrating; unsigned lastTimeout = 0;
  result_t sendResult = RESULT_OK, startResult = RESULT_OK;
};
struct Reported { MessageDirection dir; std::vector<symbol_t> master, slave; };
class FakeListener : public ProtocolListener {
 public:
  void notifyProtocolStatus(ProtocolState state, result_t result) override { states.push_back(state); }
  void notifyProtocolSeenAddress(symbol_t address) override {}
  void notifyProtocolMessage(MessageDirection direction, const MasterSymbolString& master, const SlaveSymbolString& slave) override {
    Reported r; r.dir = direction;
    for (size_t i = 0; i < master.size(); i++) r.master.push_back(master[i]);
    for (size_t i = 0; i < slave.size(); i++) r.slave.push_back(slave[i]);
    messages.push_back(r);
  }
  std::vector<Reported> messages; std::vector<ProtocolState> states;
};
static ebus_protocol_config_t defaultConfig() {
  ebus_protocol_config_t c = {};
  c.device = "fake"; c.noDeviceCheck = true; c.readOnly = false; c.extraLatency = 0; c.ownAddress = 0x31; c.answer = true;
  c.busLostRetries = 2; c.failedSendRetries = 1; c.busAcquireTimeout = 10; c.slaveRecvTimeout = 15; c.lockCount = 3; c.generateSyn = false; c.initialSend = false;
  return c;
}
static std::string hexs(const std::vector<symbol_t>& v) { std::string s; char b[4]; for (auto x : v) { snprintf(b, 4, "%02x", x); s += b; } return s; }
#endif
