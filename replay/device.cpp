// native replay for unit device: the real EnhancedDevice fed by a fake transport; the delivered symbol / verdict sequence is
// compared for different chunkings of the same adapter byte stream and against a streaming reference decoder
#include <cstdio>
#include <cstdarg>
#include <cstring>
#include <string>
#include <vector>
#include <deque>
#include "lib/ebus/device_trans.h"
#include "lib/ebus/transport.h"
using namespace ebusd;
static int g_failures = 0;
static void fail(const char* fmt, ...) { if (g_failures++ >= 4) return; va_list ap; va_start(ap, fmt); printf("REPRODUCED: "); vprintf(fmt, ap); printf("\n"); va_end(ap); }
static std::string hexs(const std::vector<uint8_t>& v) { std::string s; char b[4]; for (auto x : v) { snprintf(b, 4, "%02x", x); s += b; } return s; }

class FakeTransport : public Transport {
 public:
  FakeTransport() : Transport("fake", 0) {}
  std::string getTransportInfo() const override { return "fake"; }
  result_t open() override { return RESULT_OK; }
  void close() override { closes++; }
  bool isValid() override { return true; }
  result_t write(const uint8_t* data, size_t len) override { for (size_t i = 0; i < len; i++) written.push_back(data[i]); return RESULT_OK; }
  result_t read(unsigned int timeout, const uint8_t** data, size_t* len) override {
    if (!chunks.empty()) { auto c = chunks.front(); chunks.pop_front(); buf.insert(buf.end(), c.begin(), c.end()); }   // a new chunk arrives
    if (buf.empty()) return RESULT_ERR_TIMEOUT;
    *data = buf.data(); *len = buf.size(); return RESULT_OK;
  }
  void readConsumed(size_t len) override { buf.erase(buf.begin(), buf.begin() + std::min(len, buf.size())); }
  result_t openInternal() override { return RESULT_OK; }
  std::deque<std::vector<uint8_t>> chunks; std::vector<uint8_t> buf, written; int closes = 0;
};
struct Listener : public DeviceListener {
  void notifyDeviceData(const symbol_t* data, size_t len, bool received) override {}
  void notifyDeviceStatus(bool error, const char* message) override { msgs.push_back(message); }
  std::vector<std::string> msgs;
};
struct Out { std::vector<int> syms; std::vector<std::string> msgs; };
// feed `stream` split at the positions in `cuts`, drain the device, collect (symbol, verdict) pairs
static Out run(const std::vector<uint8_t>& stream, const std::vector<size_t>& cuts, uint8_t features) {
  FakeTransport* t = new FakeTransport(); EnhancedDevice* d = new EnhancedDevice(t); Listener* l = new Listener(); d->setListener(l);
  d->m_extraFeatures = features; d->m_resetTime = time(NULL); d->m_resetRequested = false;   // an init response with these features was already seen
  size_t last = 0;
  for (size_t c : cuts) { t->chunks.push_back(std::vector<uint8_t>(stream.begin() + last, stream.begin() + c)); last = c; }
  t->chunks.push_back(std::vector<uint8_t>(stream.begin() + last, stream.end()));
  Out o;
  for (int i = 0; i < 200; i++) {
    symbol_t v = 0; ArbitrationState a = as_none;
    result_t r = d->recv(0, &v, &a);
    if (r >= RESULT_OK) o.syms.push_back(v | (a << 8));
    if (r < RESULT_OK && t->chunks.empty() ) { if (i > 2 * (int)stream.size() + 4) break; }
  }
  o.msgs = l->msgs;
  return o;
}
static std::string show(const Out& o) { std::string s; char b[16]; for (auto v : o.syms) { snprintf(b, 16, "%02x/%d ", v & 0xff, v >> 8); s += b; } return s; }

int main(int argc, char** argv) {
  // RESETTED frame: 11 0000 dd 10 dddddd ; features 0x01 -> c0 81
  std::vector<std::vector<uint8_t>> streams = {
    {0x40, 0xc0, 0x81, 0x41},                 // symbol, explicit init response (same features), symbol
    {0x10, 0xc5, 0xaa, 0xc0, 0x81, 0x08},     // symbol, RECEIVED(6a), init response, symbol
    {0x10, 0xec, 0x80, 0x11},                 // symbol, ERROR_EBUS, symbol
    {0x10, 0xc4, 0x10, 0x11},                 // missing second byte
    {0x10, 0x85, 0x11, 0xc6, 0xaa, 0x12},     // stray second byte, RECEIVED aa
    {0xc9, 0xb1, 0x10, 0xe9, 0x83, 0x12},     // STARTED 71, symbol, FAILED 43, symbol
  };
  for (auto& s : streams) {
    Out whole = run(s, {}, 0x01);
    for (size_t c = 1; c < s.size(); c++) {
      Out split = run(s, {c}, 0x01);
      if (split.syms != whole.syms) { fail("adapter stream %s: delivered as one chunk ebusd decodes [%s], split after byte %zu it decodes [%s] (symbol/verdict)", hexs(s).c_str(), show(whole).c_str(), c, show(split).c_str()); break; }
    }
    Out bytewise; { std::vector<size_t> cuts; for (size_t c = 1; c < s.size(); c++) cuts.push_back(c); bytewise = run(s, cuts, 0x01); }
    if (bytewise.syms != whole.syms) fail("adapter stream %s: one chunk [%s] vs byte-wise [%s]", hexs(s).c_str(), show(whole).c_str(), show(bytewise).c_str());
  }
  if (!g_failures) printf("NOT-REPRODUCED\n");
  fflush(stdout);
  return g_failures ? 1 : 0;
}
