/* unit numtext: text rendering of decoded numbers (C05, C12): NumberDataType::readFromRawValue with the output stream as a
 * token stream (rule R11). Back end B2. */
#include "vbase.h"
#include "vvec.h"
#include "gen_types.h"
#define isfinite(x) __CPROVER_isfinitef(x)
#define TCAP 6
enum tokkind { TK_STR = 1, TK_CHAR, TK_INT, TK_FLT };
struct tokout { int kind[TCAP]; long ival[TCAP]; double fval[TCAP]; int width[TCAP]; int prec[TCAP]; _Bool fixed[TCAP]; size_t n;
  int cur_width; char fill; _Bool is_dec, is_fixed, other_flags; int precision; };
static inline void tok_add(struct tokout* o, int kind, long iv, double fv) {
  __CPROVER_assert(o->n < TCAP, "model capacity: more output tokens than TCAP");
  if (o->n < TCAP) { o->kind[o->n] = kind; o->ival[o->n] = iv; o->fval[o->n] = fv; o->width[o->n] = o->cur_width; o->prec[o->n] = o->precision; o->fixed[o->n] = o->is_fixed; o->n = o->n + 1; }
}
static inline void out_str(struct tokout* o, const char* s) { tok_add(o, TK_STR, (long)(unsigned char)s[0] | ((long)(unsigned char)(s[0] ? s[1] : 0) << 8), 0.0); }
static inline void out_char(struct tokout* o, char c) { tok_add(o, TK_CHAR, (unsigned char)c, 0.0); }
static inline void out_dec(struct tokout* o) { o->is_dec = 1; }
static inline void out_fixed(struct tokout* o) { o->is_fixed = 1; }
static inline void out_skipws(struct tokout* o) { }
static inline void out_resetflags(struct tokout* o) { o->is_dec = 0; o->is_fixed = 0; o->other_flags = 0; }     /* resetiosflags(flags()): all format flags cleared */
static inline void out_resetflags_mask(struct tokout* o, int base, int flt, int adjust) { if (base) o->is_dec = 0; if (flt) o->is_fixed = 0; }      /* resetiosflags(mask): only the named groups */
static inline void out_fill(struct tokout* o, char c) { o->fill = c; }
static inline void out_setw(struct tokout* o, int w) { o->cur_width = w; }
static inline void out_precision(struct tokout* o, int p) { o->precision = p; }
static inline void num_state(struct tokout* o) {
  __CPROVER_assert(o->is_dec && !o->other_flags, "[C12] a number is printed in decimal with no format flag left over from earlier output on the stream");
  __CPROVER_assert(o->cur_width == 0 || o->fill == '0', "[C12] a padded number is zero-filled whatever was printed before");
}
static inline void out_int(struct tokout* o, long v) { num_state(o); tok_add(o, TK_INT, v, 0.0); o->cur_width = 0; }
static inline void out_flt(struct tokout* o, double v) { num_state(o); tok_add(o, TK_FLT, 0, v); o->cur_width = 0; }
#define OUT_NUM(o, x) _Generic((x), float: out_flt, double: out_flt, default: out_int)(o, x)
float __CPROVER_uninterpreted_fmul(float, float); float __CPROVER_uninterpreted_fdiv(float, float);
#define UF_MUL(a, b) __CPROVER_uninterpreted_fmul(a, b)
#define UF_DIV(a, b) __CPROVER_uninterpreted_fdiv(a, b)
/* glue functions readSymbols / writeSymbols: their callees are recorded stubs (contracts in units number and numtext) */
struct iss { int text; };
int g_rr_result, g_pi_result, g_rf_result, g_wr_result; unsigned g_rr_value, g_pi_value; unsigned g_rendered, g_written; unsigned g_rf_calls, g_wr_calls; int g_parsed_text;
static inline result_t glue_readRawValue(const NDT* t, size_t offset, size_t length, const SymbolString* in, unsigned* value) { if (g_rr_result == RESULT_OK) *value = g_rr_value; return (result_t)g_rr_result; }
static inline result_t glue_readFromRawValue(const NDT* t, unsigned value, unsigned fmt, struct tokout* o) { g_rendered = value; g_rf_calls = g_rf_calls + 1; return (result_t)g_rf_result; }
static inline result_t glue_parseInput(const NDT* t, const int text, unsigned* value) { g_parsed_text = text; if (g_pi_result == RESULT_OK) *value = g_pi_value; return (result_t)g_pi_result; }
static inline result_t glue_writeRawValue(const NDT* t, unsigned value, size_t offset, size_t length, SymbolString* out, size_t* used) { g_written = value; g_wr_calls = g_wr_calls + 1; return (result_t)g_wr_result; }
#include "gen_protos.h"
#include "gen_funcs.inc"
#include "../number/spec.h"

NDT nondet_NDT(void);
static inline _Bool same_dbl(double a, double b) { return a == b || (a != a && b != b); }     /* the uninterpreted arithmetic may yield NaN */
#define IS_STR1(o, k, c) ((o)->kind[k] == TK_STR && (o)->ival[k] == (long)(unsigned char)(c))
void h_render(void) {
  NDT t = nondet_NDT(); unsigned value = nondet_uint(); _Bool json = nondet_bool(); struct tokout o;
  o.n = 0; o.cur_width = nondet_int(); o.fill = nondet_char(); o.is_dec = nondet_bool(); o.is_fixed = nondet_bool(); o.other_flags = nondet_bool(); o.precision = nondet_int();   /* stream as left by earlier output */
  __CPROVER_assume(spec_ndt_valid(&t) && t.m_precision <= 9 && (!(NDT_FLAG(&t, FIX) && NDT_FLAG(&t, BCD)) || t.m_bitCount == 16));     /* precision = digits of the divisor (calcPrecision, proved in unit number) */
  __CPROVER_assume(t.m_bitCount >= 32 || value < (1u << t.m_bitCount));          /* a raw value as read from the bytes of the type */
  size_t length = NDT_LEN(&t);
  result_t r = NDT_readFromRawValue(&t, value, json ? OF_JSON : 0, &o, 0);
  _Bool fixbcd = NDT_FLAG(&t, FIX) && NDT_FLAG(&t, BCD);
  if (!NDT_FLAG(&t, REQ) && value == t.m_replacement) {
    __CPROVER_assert(r == RESULT_OK && o.n == 1 && o.kind[0] == TK_STR && o.ival[0] == (json ? ((long)'n' | ((long)'u' << 8)) : (long)'-'), "[C05] the replacement pattern is shown as the null value (- / JSON null)");
    CANARY("null");
  } else if (spec_range(&t, value) != 0) {
    __CPROVER_assert(r == (spec_range(&t, value) == 1 ? RESULT_ERR_OUT_OF_RANGE : RESULT_EMPTY) && o.n == 0, "[C05] a pattern outside the value range (or a non-finite IEEE pattern) is rejected and nothing is shown");
    CANARY("out of range");
  } else if (NDT_FLAG(&t, EXP)) {
    float f = spec_bits_to_float(value);
    if (!__CPROVER_isfinitef(f)) {
      __CPROVER_assert(r == RESULT_OK && o.n == 1 && o.kind[0] == TK_STR, "[C05] a non-finite IEEE value is shown as the null value");
    } else {
      float scaled = f; _Bool inf = 0;
      if (f != 0.0f) { if (t.m_divisor < 0) { scaled = UF_MUL(f, (float)(-t.m_divisor)); inf = !__CPROVER_isfinitef(scaled); } else if (t.m_divisor > 1) scaled = UF_DIV(f, (float)t.m_divisor); }
      if (inf) { __CPROVER_assert(r == RESULT_ERR_OUT_OF_RANGE && o.n == 0, "[C05] an IEEE value scaled beyond the float range is rejected"); }
      else {
        __CPROVER_assert(r == RESULT_OK && o.n == 1 && o.kind[0] == TK_FLT && same_dbl(o.fval[0], (double)scaled), "[C05] an IEEE value is shown as value times multiplier / divided by divisor");
        __CPROVER_assert(t.m_precision == 0 || (o.fixed[0] && o.prec[0] == (int)t.m_precision + 6), "[C05] with the type's precision (+6 digits for IEEE values) in fixed notation");
        __CPROVER_assert(t.m_precision != 0 || (scaled == 0.0f ? (o.fixed[0] && o.prec[0] == 1) : (!o.fixed[0] && o.prec[0] == 6)), "[C05,C12] an IEEE value without divisor is shown in the default float format (0 as 0.0) whatever was printed on the stream before");
        CANARY("ieee value");
      }
    }
  } else {
    long sv = NDT_FLAG(&t, SIG) ? spec_signed(&t, value) : (long)value;
    size_t k = (json && fixbcd && t.m_divisor >= 0 && t.m_divisor <= 1) ? 1 : 0;      /* quoted in JSON to keep leading zeros */
    __CPROVER_assert(r == RESULT_OK && o.n == 1 + 2 * k, "[C05] an integer value in range is shown as exactly one number");
    if (r == RESULT_OK && o.n == 1 + 2 * k) {
      if (t.m_divisor < 0) {
        __CPROVER_assert(o.kind[k] == TK_FLT && same_dbl(o.fval[k], (double)UF_MUL((float)sv, (float)(-t.m_divisor))), "[C05] the value times the multiplier is shown");
        __CPROVER_assert(o.fixed[k] && o.prec[k] == 0, "[C05] a multiplied integer is shown in fixed notation without fraction digits (never in exponent notation)");
        CANARY("multiplier");
      } else if (t.m_divisor <= 1) {
        __CPROVER_assert(o.kind[k] == TK_INT && o.ival[k] == sv, "[C05] the signed / unsigned integer value is shown");
        __CPROVER_assert(o.width[k] == (fixbcd ? (int)(length * 2) : 0), "[C05] fixed-width BCD values keep their leading zeros (2 digits per byte), other integers are not padded");
        CANARY("integer");
      } else {
        __CPROVER_assert(o.kind[k] == TK_FLT && same_dbl(o.fval[k], (double)UF_DIV((float)sv, (float)t.m_divisor)), "[C05] the value divided by the divisor is shown");
        __CPROVER_assert(o.fixed[k] && o.prec[k] == (int)t.m_precision, "[C05] a fixed-point fraction is shown in fixed notation with the type's precision");
        CANARY("fixed point");
      }
      if (sv < 0 && t.m_bitCount < 32) { CANARY("negative value of a short type"); }
    }
  }
  __CPROVER_assert(o.cur_width == 0, "[C12] no field width is left behind on the stream");
}

SymbolString nondet_SS(void);
void h_glue(void) {
  NDT t = nondet_NDT(); SymbolString in = nondet_SS(), out = nondet_SS(); struct tokout o; struct iss text; size_t used;
  g_rr_result = nondet_int(); g_pi_result = nondet_int(); g_rf_result = nondet_int(); g_wr_result = nondet_int(); g_rr_value = nondet_uint(); g_pi_value = nondet_uint(); text.text = nondet_int();
  __CPROVER_assume(g_rr_result <= 1 && g_rr_result >= -30 && g_pi_result <= 1 && g_pi_result >= -30 && g_rf_result <= 1 && g_rf_result >= -30 && g_wr_result <= 1 && g_wr_result >= -30);
  g_rf_calls = 0; g_wr_calls = 0; o.n = 0;
  result_t r = NDT_readSymbols(&t, nondet_size(), nondet_size(), &in, nondet_uint(), &o);
  if (g_rr_result != RESULT_OK) { __CPROVER_assert(r == g_rr_result && g_rf_calls == 0, "[C05] an undecodable pattern is rejected and nothing is shown"); }
  else { __CPROVER_assert(g_rf_calls == 1 && g_rendered == g_rr_value && r == g_rf_result, "[C05] exactly the decoded raw value is rendered"); CANARY("read"); }
  result_t w = NDT_writeSymbols(&t, nondet_size(), nondet_size(), &text, &out, &used);
  __CPROVER_assert(g_parsed_text == text.text, "[C06,C07] the whole input text is parsed");
  if (g_pi_result != RESULT_OK) { __CPROVER_assert(w == g_pi_result && g_wr_calls == 0, "[C07] a rejected text writes nothing"); }
  else { __CPROVER_assert(g_wr_calls == 1 && g_written == g_pi_value && w == g_wr_result, "[C06,C07] exactly the parsed raw value is written"); CANARY("write"); }
}

/* the decoded value as a float (used for KNX and for range display): same value as the rendered one */
void h_float_raw(void) {
  NDT t = nondet_NDT(); unsigned value = nondet_uint(); float out = 12345.0f;
  __CPROVER_assume(spec_ndt_valid(&t) && (t.m_bitCount >= 32 || value < (1u << t.m_bitCount)));
  result_t r = NDT_getFloatFromRawValue(&t, value, &out);
  if (!NDT_FLAG(&t, REQ) && value == t.m_replacement) { __CPROVER_assert(r == RESULT_EMPTY, "[C05] the replacement pattern has no float value"); CANARY("null"); }
  else if (spec_range(&t, value) != 0) { __CPROVER_assert(r == (spec_range(&t, value) == 1 ? RESULT_ERR_OUT_OF_RANGE : RESULT_EMPTY), "[C05] a pattern outside the value range is rejected"); }
  else if (NDT_FLAG(&t, EXP)) {
    float f = spec_bits_to_float(value);
    if (__CPROVER_isfinitef(f)) {
      float scaled = f; _Bool inf = 0;
      if (f != 0.0f) { if (t.m_divisor < 0) { scaled = UF_MUL(f, (float)(-t.m_divisor)); inf = !__CPROVER_isfinitef(scaled); } else if (t.m_divisor > 1) scaled = UF_DIV(f, (float)t.m_divisor); }
      if (inf) __CPROVER_assert(r == RESULT_ERR_OUT_OF_RANGE, "[C05] an IEEE value scaled beyond the float range is rejected");
      else __CPROVER_assert(r == RESULT_OK && same_dbl(out, scaled), "[C05] an IEEE value is value times multiplier / divided by divisor");
    }
  } else {
    long sv = NDT_FLAG(&t, SIG) ? spec_signed(&t, value) : (long)value;
    float expect = t.m_divisor < 0 ? UF_MUL((float)sv, (float)(-t.m_divisor)) : t.m_divisor <= 1 ? (float)sv : UF_DIV((float)sv, (float)t.m_divisor);
    __CPROVER_assert(r == RESULT_OK && same_dbl(out, expect), "[C05] the float value of an integer pattern is the signed / unsigned value times the multiplier or divided by the divisor");
    CANARY("integer pattern");
  }
}
