DT_CPP = 'src/lib/ebus/datatype.cpp'
DT_H = 'src/lib/ebus/datatype.h'
SYM_H = 'src/lib/ebus/symbol.h'

_inl = dict(file=DT_H, inline_class='DataType', self='NDT')


def _replay(run, inputs, rp, repo, verif):
    import replay
    exe = replay.build('numtext', ['src/lib/ebus/datatype.cpp', 'src/lib/ebus/symbol.cpp', 'src/lib/ebus/result.cpp', 'src/lib/ebus/contrib/contrib.cpp',
                                   'src/lib/ebus/contrib/tem.cpp'], repo, verif)
    return replay.run(exe, [run['id']])


UNIT = dict(
    replay=_replay,
    trusted=['std::ostream formatting is a token model (rule R11): every operand of a << chain is recorded as a token together with the stream state in force (base, width, fill, fixed flag, precision); the characters libstdc++ prints for a number in that state are not modelled',
             'float multiplication and division by the divisor are uninterpreted function symbols shared by code and specification (the operands are checked, the IEEE arithmetic itself is not); int -> float conversions are CBMC\'s IEEE-754'],
    defines=[(DT_H, ['MAX_DIVISOR', 'MAX_LEN', 'NULL_VALUE', 'ADJ', 'BCD', 'REV', 'SIG', 'IGN', 'FIX', 'REQ', 'HCD', 'EXP', 'DAY', 'NUM', 'DAT', 'SPE', 'DUP', 'REZ'])],
    enums=[('src/lib/ebus/result.h', 'result_t'), (SYM_H, 'PredefinedSymbol', 'PredefinedSymbol', 'symbol_t'), (DT_H, 'OutputFormat', 'OutputFormatE')],
    structs=[dict(file=SYM_H, classes=['SymbolString'], cname='SymbolString', member_types={'m_data': 'vsym'}, is_self=False),
             dict(parts=[(DT_H, 'DataType'), (DT_H, 'NumberDataType')], cname='NDT', skip=('m_id',), member_types={'m_baseType': 'const struct NDT*'})],
    cfg=dict(
        type_map={'ostream': 'struct tokout', 'OutputFormat': 'unsigned'},
        own_methods={'hasFlag': ('DataType_hasFlag', 'self'), 'checkValueRange': ('NDT_checkValueRange', 'self')},
        defaults={'NDT_checkValueRange': (3, ['NULL'])},
        # float multiplication / division become uninterpreted function applications (same symbols in the specification): operands are checked, the arithmetic is not
        text_subs=[(r'\(\(float\)\((\w+)\) \* \(float\)\((-self->m_divisor)\)\)', r'UF_MUL((float)(\1), (float)(\2))'),
                   (r'\(\(float\)\((\w+)\) / \(float\)\((self->m_divisor)\)\)', r'UF_DIV((float)(\1), (float)(\2))'),
                   (r'val \*= \(float\)\(-self->m_divisor\);', 'val = UF_MUL(val, (float)(-self->m_divisor));'),
                   (r'val /= \(float\)\(self->m_divisor\);', 'val = UF_DIV(val, (float)(self->m_divisor));'),
                   (r'= \(float\)\((\w+)\) \* \(float\)\((-self->m_divisor)\);', r'= UF_MUL((float)(\1), (float)(\2));'),
                   (r'= \(float\)\((\w+)\) / \(float\)\((self->m_divisor)\);', r'= UF_DIV((float)(\1), (float)(\2));')],
    ),
    functions=[
        dict(_inl, name='hasFlag', cname='DataType_hasFlag', static=True),
        dict(file=DT_CPP, name='uintToFloat', cname='uintToFloat', self=None),
        dict(file=DT_CPP, name='NumberDataType::checkValueRange', cname='NDT_checkValueRange', self='NDT'),
        dict(file=DT_CPP, name='NumberDataType::readFromRawValue', cname='NDT_readFromRawValue', self='NDT',
             stream_out=dict(vars=['output'], str_macros=('NULL_VALUE',), min=12)),
    ],
    runs=[],
)
UNIT['functions'] += [
    dict(file=DT_CPP, name='NumberDataType::getFloatFromRawValue', cname='NDT_getFloatFromRawValue', self='NDT'),
    dict(file=DT_CPP, name='NumberDataType::readSymbols', cname='NDT_readSymbols', self='NDT',
         cfg=dict(own_methods={'readRawValue': ('glue_readRawValue', 'self'), 'readFromRawValue': ('glue_readFromRawValue', 'self')}, text_subs=[(r'glue_readRawValue\(self, offset, length, \(\*input\), &value\)', 'glue_readRawValue(self, offset, length, input, &value)')])),
    dict(file=DT_CPP, name='NumberDataType::writeSymbols', cname='NDT_writeSymbols', self='NDT',
         cfg=dict(type_map={'istringstream': 'struct iss', 'string': 'int'}, own_methods={'parseInput': ('glue_parseInput', 'self'), 'writeRawValue': ('glue_writeRawValue', 'self')}),
         pre_subs=[(r'const string inputStr = input->str\(\);', 'const int inputStr = input->text;', 1)]),
]


def R(id, entry, enforce=None, replace=(), loops=False, props=('C05', 'C12', 'C20'), **kw):
    d = dict(id=id, entry=entry, enforce=enforce, replace=list(replace), loops=loops, props=list(props))
    d.update(kw)
    UNIT['runs'].append(d)

R('render', 'h_render', None, unwind=6, defines=['SS_CAP=8'], cost=60, timeout=1200)
R('glue', 'h_glue', None, unwind=6, defines=['SS_CAP=8'], cost=5, props=('C05', 'C06', 'C07', 'C20'))
R('float_raw', 'h_float_raw', None, unwind=6, defines=['SS_CAP=8'], cost=20, props=('C05', 'C20'))
