/* unit topic: MQTT topic template formatting and matching, StringReplacer::get / match / checkMatchability (C18, C20).  Back end B2, BOUNDED strings. */
#include "vbase.h"
#include "vstr.h"
#ifndef PCAP
#define PCAP 5
#endif
#include "gen_types.h"
static inline vstr vstr_new(void) { vstr r; r.n = 0; for (size_t i = 0; i <= VSTR_CAP; i++) r.d[i] = 0; return r; }
static inline _Bool vstr_equal(vstr a, vstr b) { if (a.n != b.n) return 0; _Bool eq = 1; for (size_t i = 0; i < VSTR_CAP; i++) { if (i < a.n && a.d[i] != b.d[i]) eq = 0; } return eq; }
/* vector<pair<string,int>> m_parts: second < 0 constant text, otherwise the index of the field name among the known names (>= KNOWN_COUNT: unknown) */
struct part { vstr first; int second; };
struct partvec { struct part e[PCAP]; size_t n; };
struct StringReplacer { struct partvec m_parts; _Bool m_emptyIfMissing; };
/* map<string,string> of values, indexed by known field index */
#define VM_CAP 3
struct valmap { vstr v[VM_CAP]; _Bool present[VM_CAP]; };
static inline struct valmap valmap_new(void) { struct valmap m; for (int i = 0; i < VM_CAP; i++) { m.v[i] = vstr_new(); m.present[i] = 0; } return m; }
static inline void valmap_set(struct valmap* m, int idx, const vstr* v) { __CPROVER_assert(idx >= 0 && idx < VM_CAP, "model: known field index"); m->v[idx] = *v; m->present[idx] = 1; }
static inline const vstr* valmap_find(const struct valmap* m, const vstr* name, int idx) { (void)name; return (idx >= 0 && idx < VM_CAP && m->present[idx]) ? &m->v[idx] : NULL; }
static inline void vstr_push(vstr* s, char c) { __CPROVER_assert(s->n < VSTR_CAP, "model capacity: string push beyond VSTR_CAP"); if (s->n < VSTR_CAP) { s->d[s->n] = c; s->n = s->n + 1; s->d[s->n] = 0; } }
static inline void vstr_clear(vstr* s) { *s = vstr_new(); }
static inline vstr vstr_prefix2(char a, char b, const vstr* t) { vstr r = vstr_new(); __CPROVER_assert(t->n + 2 <= VSTR_CAP, "model capacity: prefix beyond VSTR_CAP"); r.d[0] = a; r.d[1] = b; r.n = 2;
  for (size_t i = 0; i < VSTR_CAP; i++) { if (i < t->n && i + 2 < VSTR_CAP) r.d[i + 2] = t->d[i]; } r.n = t->n + 2 <= VSTR_CAP ? t->n + 2 : VSTR_CAP; r.d[r.n] = 0; return r; }
static inline _Bool vstr_eq_cstr(const vstr* s, const char* c) { size_t i = 0; _Bool eq = 1, end = 0;
  for (i = 0; i <= VSTR_CAP; i++) { if (!end) { char x = c[i]; if (x == 0) { end = 1; if (s->n != i) eq = 0; } else if (i >= s->n || s->d[i] != x) { eq = 0; end = 1; } } }
  return eq && end; }
static inline struct part mk_part(const vstr* name, int idx) { struct part p; p.first = *name; p.second = idx; return p; }
static inline void partvec_push(struct partvec* v, struct part p) { __CPROVER_assert(v->n < PCAP, "model capacity: more parts than PCAP"); if (v->n < PCAP) { v->e[v->n] = p; v->n = v->n + 1; } }
/* std::string::find_first_of(str, pos): first position >= pos holding any character of the set */
static inline size_t vstr_find_first_of_str(const vstr* s, const vstr* set, size_t pos) {
  size_t r = VSTR_NPOS;
  for (size_t i = 0; i < VSTR_CAP; i++) { if (r == VSTR_NPOS && i >= pos && i < s->n) { _Bool m = 0; for (size_t k = 0; k < VSTR_CAP; k++) { if (k < set->n && set->d[k] == s->d[i]) m = 1; } if (m) r = i; } }
  return r;
}
static inline size_t vstr_rfind_char(const vstr* s, char ch) { size_t r = VSTR_NPOS; for (size_t i = 0; i < VSTR_CAP; i++) { if (i < s->n && s->d[i] == ch) r = i; } return r; }
_Bool g_restart_topic;
static inline _Bool env_is_restart_topic(const vstr* t) { (void)t; return g_restart_topic; }
static inline void env_normalize(vstr* s) { (void)s; __CPROVER_assert(0, "model: normalize is not used by the topic path"); }
static inline void env_tolower(vstr* s) { (void)s; }   /* the harness uses lower case text only when ignoreCase is set */
#include "gen_protos.h"
#include "gen_funcs.inc"

static inline _Bool is_ident(char c) { return (c >= 'a' && c <= 'z') || (c >= '0' && c <= '9') || c == '_'; }
vstr nondet_vstr(void);
/* an identifier or constant of up to 2 characters */
static inline vstr any_short(_Bool ident, _Bool nonempty) {
  vstr s = nondet_vstr(); __CPROVER_assume(s.n <= 2 && (!nonempty || s.n >= 1));
  for (size_t k = 0; k <= VSTR_CAP; k++) { if (k >= s.n) __CPROVER_assume(s.d[k] == 0); else __CPROVER_assume(s.d[k] != 0 && (!ident || is_ident(s.d[k]))); }
  return s;
}
/* the topic built for (circuit, name, field) from a matchable template of constants and %circuit / %name / %field is mapped back to the same triple */
void h_topic_roundtrip(void) {
  struct StringReplacer sr; sr.m_emptyIfMissing = nondet_bool();
  sr.m_parts.n = nondet_size(); __CPROVER_assume(sr.m_parts.n >= 1 && sr.m_parts.n <= PCAP);
  _Bool seen[VM_CAP] = {0, 0, 0};
  for (size_t k = 0; k < PCAP; k++) {
    _Bool isfield = nondet_bool();
    if (k < sr.m_parts.n) {
      if (isfield) {
        int idx = nondet_int(); __CPROVER_assume(idx >= 0 && idx < KNOWN_COUNT && idx < VM_CAP && !seen[idx]); seen[idx] = 1;   /* each known field at most once */
        sr.m_parts.e[k].second = idx; sr.m_parts.e[k].first = any_short(1, 1);   /* the name text itself is not used by the topic path */
      } else {
        sr.m_parts.e[k].second = -1; sr.m_parts.e[k].first = any_short(0, 1);
        /* parse merges adjacent constants; a constant following a field starts with a character that cannot be part of an identifier */
        if (k > 0) { __CPROVER_assume(sr.m_parts.e[k - 1].second >= 0); __CPROVER_assume(!is_ident(sr.m_parts.e[k].first.d[0])); }
      }
    } else { sr.m_parts.e[k].second = -1; sr.m_parts.e[k].first = vstr_new(); }
  }
  __CPROVER_assume(SR_checkMatchability(&sr));
  for (size_t k = 0; k + 1 < PCAP; k++) { if (k + 1 < sr.m_parts.n) __CPROVER_assert(!(sr.m_parts.e[k].second >= 0 && sr.m_parts.e[k + 1].second >= 0), "[C18] a matchable template has no two adjacent fields"); }
  vstr val[VM_CAP]; val[KNOWN_circuit] = any_short(1, 0); val[KNOWN_name] = any_short(1, 0); val[KNOWN_field] = any_short(1, 0);
  /* reference: the concatenation of the parts up to (excluding) the first field whose value is empty */
  vstr expect = vstr_new(); _Bool stopped = 0; _Bool sent[VM_CAP] = {0, 0, 0}; size_t total = 0;
  for (size_t k = 0; k < PCAP; k++) {
    if (k < sr.m_parts.n && !stopped) {
      const vstr* t = sr.m_parts.e[k].second < 0 ? &sr.m_parts.e[k].first : &val[sr.m_parts.e[k].second];
      if (sr.m_parts.e[k].second >= 0 && t->n == 0) stopped = 1;
      else { total = total + t->n; if (total <= VSTR_CAP) { for (size_t j = 0; j < 2; j++) { if (j < t->n) { expect.d[expect.n] = t->d[j]; expect.n = expect.n + 1; } } }
             if (sr.m_parts.e[k].second >= 0) sent[sr.m_parts.e[k].second] = 1; }
    }
  }
  __CPROVER_assume(total <= VSTR_CAP);
  vstr topic = SR_get3(&sr, &val[KNOWN_circuit], &val[KNOWN_name], &val[KNOWN_field]);
  __CPROVER_assert(vstr_valid(&topic) && vstr_equal(topic, expect), "[C18] the topic is the template with every field replaced by its value, cut before the first field without value");
  vstr c = vstr_new(), n = vstr_new(), f = vstr_new(), sep = vstr_new(); sep.d[0] = '/'; sep.n = 1;
  long r = SR_match(&sr, &topic, &c, &n, &f, &sep, 0);
  __CPROVER_assert(vstr_equal(c, sent[KNOWN_circuit] ? val[KNOWN_circuit] : vstr_new()), "[C18] the circuit of a topic built from the template is matched back (empty when the topic does not carry it)");
  __CPROVER_assert(vstr_equal(n, sent[KNOWN_name] ? val[KNOWN_name] : vstr_new()), "[C18] the name of a topic built from the template is matched back (empty when the topic does not carry it)");
  __CPROVER_assert(vstr_equal(f, sent[KNOWN_field] ? val[KNOWN_field] : vstr_new()), "[C18] the field of a topic built from the template is matched back (empty when the topic does not carry it)");
  if (!stopped) { __CPROVER_assert(r == (long)sr.m_parts.n, "[C18] a complete topic matches all parts of the template"); }
  if (!stopped && sr.m_parts.n == 5 && sent[0] && sent[1] && topic.n >= 8) { CANARY("five parts, circuit and name"); }
  if (stopped && sent[KNOWN_circuit] && sr.m_parts.n >= 4) { CANARY("cut before an empty field"); }
  if (r < 0) { CANARY("incomplete match"); }
}

/* StringReplacer::parse establishes the shape of the parts vector that get / match (and the round trip above) rely on */
static inline int spec_known_index(const vstr* s) {
  if (s->n == 7 && s->d[0] == 'c' && s->d[1] == 'i' && s->d[2] == 'r' && s->d[3] == 'c' && s->d[4] == 'u' && s->d[5] == 'i' && s->d[6] == 't') return KNOWN_circuit;
  if (s->n == 4 && s->d[0] == 'n' && s->d[1] == 'a' && s->d[2] == 'm' && s->d[3] == 'e') return KNOWN_name;
  if (s->n == 5 && s->d[0] == 'f' && s->d[1] == 'i' && s->d[2] == 'e' && s->d[3] == 'l' && s->d[4] == 'd') return KNOWN_field;
  return KNOWN_COUNT;
}
void h_topic_parse(void) {
  struct StringReplacer sr; sr.m_parts.n = nondet_size(); __CPROVER_assume(sr.m_parts.n <= PCAP); sr.m_emptyIfMissing = nondet_bool();
  vstr t = nondet_vstr(); __CPROVER_assume(vstr_valid(&t));
  for (size_t k = 0; k <= VSTR_CAP; k++) { if (k >= t.n) __CPROVER_assume(t.d[k] == 0); else __CPROVER_assume(t.d[k] != 0); }
  _Bool onlyKnown = nondet_bool(), noDup = nondet_bool(), eim = nondet_bool();
  _Bool ok = SR_parse(&sr, &t, onlyKnown, noDup, eim);
  size_t k = nondet_size(); __CPROVER_assume(k < sr.m_parts.n);
  const struct part* p = &sr.m_parts.e[k];
  __CPROVER_assert(vstr_valid(&p->first), "[C18] every part text is a valid string");
  if (p->second < 0) {
    __CPROVER_assert(p->first.n > 0, "[C18] a parsed template has no empty constant");
    __CPROVER_assert(k == 0 || sr.m_parts.e[k - 1].second >= 0, "[C18] adjacent constants of a parsed template are merged");
  } else {
    __CPROVER_assert(p->second == spec_known_index(&p->first), "[C18] the field index of a part is the position of its name among the known field names (circuit, name, field), otherwise the unknown index");
    size_t j = nondet_size(); __CPROVER_assume(j < VSTR_CAP);
    if (j < p->first.n) { char c = p->first.d[j]; __CPROVER_assert((c >= 'a' && c <= 'z') || (c >= 'A' && c <= 'Z') || c == '_', "[C18] a field name consists of letters and underscores"); }
  }
  size_t total = 0, pct = 0;
  for (size_t i = 0; i < PCAP; i++) { if (i < sr.m_parts.n) total = total + sr.m_parts.e[i].first.n; }
  for (size_t i = 0; i < VSTR_CAP; i++) { if (i < t.n && (t.d[i] == '%' || t.d[i] == '{' || t.d[i] == '}')) pct = pct + 1; }
  __CPROVER_assert(total <= t.n + 1 && total + pct >= t.n, "[C18] the parts carry the template text (only %, { and } are dropped)");
  if (pct == 0) { __CPROVER_assert(ok && sr.m_parts.n == (t.n > 0 ? 1 : 0) && (t.n == 0 || (sr.m_parts.e[0].second < 0 && vstr_equal(sr.m_parts.e[0].first, t))), "[C18] a template without field syntax is one constant"); }
  if (ok) {
    __CPROVER_assert(sr.m_emptyIfMissing == eim, "[C18] the missing-value mode is stored");
    if (onlyKnown) { __CPROVER_assert(p->second < KNOWN_COUNT, "[C18] with onlyKnown an accepted template has no unknown field"); }
    if (noDup) { size_t k2 = nondet_size(); __CPROVER_assume(k2 < sr.m_parts.n && k2 != k);
      __CPROVER_assert(!(p->second >= 0 && p->second < KNOWN_COUNT && sr.m_parts.e[k2].second == p->second), "[C18] with noKnownDuplicates an accepted template uses each known field at most once"); }
  }
  if (ok && sr.m_parts.n >= 3 && p->second == KNOWN_name) { CANARY("template with %name"); }
  if (!ok) { CANARY("template rejected"); }
  if (sr.m_parts.n >= 4) { CANARY("four parts"); }
}

/* a received topic "<template part>/<get|set|list>[?args]" is split at its last slash; anything else is ignored */
void h_split_topic(void) {
  vstr base = nondet_vstr(), args = nondet_vstr(); int dir = nondet_int(); _Bool with_args = nondet_bool(); g_restart_topic = 0;
  __CPROVER_assume(vstr_valid(&base) && base.n <= 3 && vstr_valid(&args) && args.n <= 1 && dir >= 0 && dir <= 3);
  for (size_t k = 0; k <= VSTR_CAP; k++) { if (k < base.n) __CPROVER_assume(base.d[k] != 0); else __CPROVER_assume(base.d[k] == 0);
    if (k < args.n) __CPROVER_assume(args.d[k] != 0 && args.d[k] != '/'); else __CPROVER_assume(args.d[k] == 0); }
  vstr topic = base; vstr_push(&topic, '/');
  if (dir == 0) { vstr_push(&topic, 'g'); vstr_push(&topic, 'e'); vstr_push(&topic, 't'); }
  else if (dir == 1) { vstr_push(&topic, 's'); vstr_push(&topic, 'e'); vstr_push(&topic, 't'); }
  else if (dir == 2) { vstr_push(&topic, 'l'); vstr_push(&topic, 'i'); vstr_push(&topic, 's'); vstr_push(&topic, 't'); }
  else { vstr_push(&topic, 'g'); vstr_push(&topic, 'e'); }      /* some other last level */
  if (with_args) { vstr_push(&topic, '?'); vstr_append(&topic, &args); }
  vstr mt = vstr_new(), ar = vstr_new(); _Bool w = nondet_bool(), l = nondet_bool(), acc = nondet_bool();
  Mqtt_splitTopic(&topic, &mt, &ar, &w, &l, &acc);
  __CPROVER_assert(acc == (dir <= 2), "[C18] a topic is handled iff its last level is get, set or list (optionally followed by ?args)");
  if (acc) {
    __CPROVER_assert(vstr_equal(mt, base), "[C18] the part before the last slash is what is matched against the topic template");
    __CPROVER_assert(w == (dir == 1) && l == (dir == 2), "[C18] set is a write, list a listing, get a read");
    __CPROVER_assert(vstr_equal(ar, with_args ? args : vstr_new()), "[C18] the text after ? is passed on as arguments");
    if (dir == 2 && with_args && base.n == 3) { CANARY("list with arguments"); }
  } else { CANARY("ignored topic"); }
}
