SH_CPP = 'src/lib/ebus/stringhelper.cpp'
import re


def _known(repo):
    """R15g: the table of known field names -> #define KNOWN_<name> <index> (the order is what ties a field name to the index stored in a template part)"""
    src = open(repo + '/' + SH_CPP).read()
    m = re.search(r'static const char\* knownFieldNames\[\] = \{([^}]*)\};', src)
    if not m:
        raise Exception('knownFieldNames table not found')
    names = re.findall(r'"(\w+)"', m.group(1))
    return ('\n'.join('#define KNOWN_%s %d' % (n, i) for i, n in enumerate(names)) + '\n#define KNOWN_COUNT %d\n' % len(names)
            + 'static const char* const knownFieldNames[] = {%s};\n#define knownFieldCount KNOWN_COUNT\n' % ', '.join('"%s"' % n for n in names)), len(names)


def _replay(run, inputs, rp, repo, verif):
    import replay
    exe = replay.build('topic', ['src/lib/ebus/stringhelper.cpp', 'src/lib/ebus/filereader.cpp', 'src/lib/ebus/message.cpp', 'src/lib/ebus/data.cpp', 'src/lib/ebus/datatype.cpp', 'src/lib/ebus/symbol.cpp',
                                 'src/lib/ebus/result.cpp', 'src/lib/ebus/contrib/contrib.cpp', 'src/lib/ebus/contrib/tem.cpp', 'src/lib/utils/log.cpp', 'src/lib/utils/clock.cpp'], repo, verif)
    return replay.run(exe, [run['id']])


# StringReplacer::get(values, untilFirstEmpty, onlyAlphanum): ostringstream -> string value model; the map of values is indexed by the known field index
# stored in the template part (name <-> index consistency is makeField's, not extracted); loop over the parts vector by index
_GET = [(r'ostringstream ret;', 'vstr ret = vstr_new();', 1),
        (r'for \(const auto &it : m_parts\) \{', 'for (size_t pi = 0; pi < m_parts.n; pi++) {\n    const struct part* it = &m_parts.e[pi];', 1),
        (r'\bit\.second\b', 'it->second', (1, 4)),
        (r'ret << it\.first;', 'vstr_append(&ret, &it->first);', 1),
        (r'const auto pos = values\.find\(it\.first\);', 'const vstr* pos = valmap_find(values, &it->first, it->second);', 1),
        (r'pos == values\.cend\(\)', 'pos == NULL', 1),
        (r'pos->second\.empty\(\)', 'vstr_empty(pos)', 1),
        (r'ret << pos->second;', 'vstr_append(&ret, pos);', 1),
        (r'return "";', 'return vstr_new();', (1, 4)),
        (r'return ret\.str\(\);', 'return ret;', 1),
        (r'string str = ret\.str\(\);\s*normalize\(str\);', 'vstr str = ret;\n  env_normalize(&str);', 1)]
_GET3 = [(r'map <string, string> values;', 'struct valmap values = valmap_new();', 1),
         (r'values\["(\w+)"\] = (\w+);', lambda m: 'valmap_set(&values, KNOWN_%s, %s);' % (m.group(1), m.group(2)), (2, 6)),
         (r'return get\(values, true\);', 'return SR_get(self, &values, true, false);', 1)]
_MATCH = [(r'FileReader::tolower\(&(\w+)\);', lambda m: 'env_tolower(&%s);' % m.group(1), (1, 4)),
          (r'size_t count = m_parts\.size\(\);', 'size_t count = m_parts.n;', 1),
          (r'const auto part = m_parts\[idx\];', 'const struct part part = m_parts.e[idx];', 1),
          (r'str\.substr\(last, part\.first\.length\(\)\) != part\.first', '!vstr_equal(vstr_substr(&str, last, part.first.n), part.first)', 1),
          (r'part\.first\.length\(\)', 'part.first.n', (1, 3)),
          (r'string chk = m_parts\[idx\+1\]\.first;', 'vstr chk = m_parts.e[idx+1].first;', 1),
          (r'string value;', 'vstr value = vstr_new();', 1),
          (r'str\.(find|find_first_of|rfind|find_last_of)\(chk, last\)', lambda m: '%s(&str, &chk, last)' % {'find': 'vstr_find_str', 'find_first_of': 'vstr_find_first_of_str', 'rfind': 'vstr_rfind_str', 'find_last_of': 'vstr_find_last_of_str'}[m.group(1)], 1),
          (r'str\.find\(separator, last\)', 'vstr_find_str(&str, separator, last)', 1),
          (r'str\.substr\(last\)', 'vstr_substr(&str, last, VSTR_NPOS)', (1, 3)),
          (r'str\.substr\(last, (pos[^()]*)\)', lambda m: 'vstr_substr(&str, last, %s)' % m.group(1), 1),
          (r'value\.length\(\)', 'value.n', (1, 3))]

_MAKE = [(r'return \{name, ([^}]+)\};', lambda m: 'return mk_part(name, %s);' % m.group(1), 3),
         (r'name == knownFieldNames\[idx\]', 'vstr_eq_cstr(name, knownFieldNames[idx])', 1)]
_ADDPART = [(r'string str = stack\.str\(\);', 'vstr str = *stack;', 1),
            (r'str == "_"', "vstr_eq_lit1(&str, '_')", 1),
            (r'str = "%\{" \+ str;', "str = vstr_prefix2('%', '{', &str);", 1),
            (r'stack\.str\(""\);', 'vstr_clear(stack);', 1),
            (r'!m_parts\.empty\(\)', '(m_parts.n != 0)', 1),
            (r'm_parts\[m_parts\.size\(\)-1\]\.second', 'm_parts.e[m_parts.n-1].second', 1),
            (r'm_parts\[m_parts\.size\(\)-1\]\.first \+= str;', 'vstr_append(&m_parts.e[m_parts.n-1].first, &str);', 1),
            (r'm_parts\.push_back\(makeField\(str, inField > 0\)\);', 'partvec_push(&m_parts, SR_makeField(&str, inField > 0));', 1)]
_PARSE = [(r'm_parts\.clear\(\);', 'm_parts.n = 0;', 1),
          (r'ostringstream stack;', 'vstr stack = vstr_new();', 1),
          (r'for \(auto ch : templateStr\) \{', 'for (size_t ci = 0; ci < templateStr->n; ci++) {\n    char ch = templateStr->d[ci];', 1),
          (r'stack\.tellp\(\) <= 0', '(stack.n == 0)', 1),
          (r'stack << ch;', 'vstr_push(&stack, ch);', 2),
          (r'addPart\(stack, (\w+)\);', lambda m: 'SR_addPart(self, &stack, %s);' % m.group(1), (3, 6)),
          (r'for \(const auto &it : m_parts\) \{', 'for (size_t pi = 0; pi < m_parts.n; pi++) {\n      const struct part* it = &m_parts.e[pi];', 1),
          (r'\bit\.second\b', 'it->second', (2, 8))]

MQTT_CPP = 'src/ebusd/mqtthandler.cpp'
# head of MqttHandler::notifyMqttTopic (fragment, R16): split of the received topic into the template part and the direction suffix
_NOTIFY = [(r"size_t pos = topic\.rfind\('/'\);", "vstr topic = *topic_p; *accepted_p = 0;\n  size_t pos = vstr_rfind_char(&topic, '/');", 1),
           (r'if \(!m_subscribeConfigRestartTopic\.empty\(\).*?return;\s*\}', 'if (env_is_restart_topic(&topic)) {\n    return;\n  }', 1),
           (r'string args;', 'vstr args = vstr_new();', 1),
           (r'(\w+) (==|!=) "(\w+)"', lambda m: '%svstr_eq_cstr(&%s, "%s")' % ('!' if m.group(2) == '!=' else '', m.group(1), m.group(3)), (3, 6))]

UNIT = dict(
    replay=_replay,
    trusted=['std::string / ostringstream are bounded value models (capacity per run, stated as bound); the parts vector is a fixed-capacity array; the values map is indexed by the known field index of a part (the name/index consistency established by StringReplacer::makeField is assumed)'],
    generated=[_known],
    cfg=dict(
        type_map={'string': 'vstr', 'ssize_t': 'long'},
        members={'m_parts', 'm_emptyIfMissing'},
        text_subs=[(r'vstr::npos', 'VSTR_NPOS')],
    ),
    functions=[
        dict(file=SH_CPP, name='StringReplacer::makeField', cname='SR_makeField', self=None, ret='struct part', params_c=['const vstr* name', '_Bool isField'], pre_subs=_MAKE),
        dict(file=SH_CPP, name='StringReplacer::addPart', cname='SR_addPart', self='struct StringReplacer', ret='void', params_c=['vstr* stack', 'int inField'], pre_subs=_ADDPART,
             cfg=dict(methods={'empty': 'vstr_empty'})),
        dict(file=SH_CPP, name='StringReplacer::parse', cname='SR_parse', self='struct StringReplacer', ret='_Bool',
             params_c=['const vstr* templateStr', '_Bool onlyKnown', '_Bool noKnownDuplicates', '_Bool emptyIfMissing'], pre_subs=_PARSE),
        dict(file=SH_CPP, name='StringReplacer::checkMatchability', cname='SR_checkMatchability', self='struct StringReplacer',
             pre_subs=[(r'for \(const auto& part : m_parts\) \{', 'for (size_t pi = 0; pi < m_parts.n; pi++) {\n    const struct part part = m_parts.e[pi];', 1)]),
        dict(file=SH_CPP, name='StringReplacer::get', sig='const map<string, string>& values', cname='SR_get', self='struct StringReplacer', ret='vstr',
             params_c=['const struct valmap* values', '_Bool untilFirstEmpty', '_Bool onlyAlphanum'], pre_subs=_GET),
        dict(file=SH_CPP, name='StringReplacer::get', sig='const string& circuit, const string& name', cname='SR_get3', self='struct StringReplacer', ret='vstr',
             params_c=['const vstr* circuit', 'const vstr* name', 'const vstr* fieldName'], pre_subs=_GET3,
             cfg=dict(methods={'empty': 'vstr_empty'}, text_subs=[(r'vstr_empty\(&fieldName\)', 'vstr_empty(fieldName)')])),
        dict(file=MQTT_CPP, name='MqttHandler::notifyMqttTopic', cname='Mqtt_splitTopic', self=None, ret='void',
             params_c=['const vstr* topic_p', 'vstr* matchTopic_p', 'vstr* args_p', '_Bool* isWrite_p', '_Bool* isList_p', '_Bool* accepted_p'],
             fragment=dict(start=r"size_t pos = topic\.rfind\('/'\);", end=r'logOtherDebug\("mqtt", "received topic',
                           tail=' *matchTopic_p = matchTopic; *args_p = args; *isWrite_p = isWrite; *isList_p = isList; *accepted_p = 1; return; '),
             pre_subs=_NOTIFY,
             cfg=dict(methods={'empty': 'vstr_empty', 'substr': 'vstr_substr', 'find': 'vstr_find_char'}, defaults={'vstr_substr': (3, ['VSTR_NPOS']), 'vstr_find_char': (3, ['0'])})),
        dict(file=SH_CPP, name='StringReplacer::match', cname='SR_match', self='struct StringReplacer', ret='long',
             params_c=['const vstr* strIn', 'vstr* circuit', 'vstr* name', 'vstr* field', 'const vstr* separator', '_Bool ignoreCase'], pre_subs=_MATCH,
             cfg=dict(text_subs=[(r'vstr str = strIn;', 'vstr str = *strIn;')])),
    ],
    runs=[],
)


def R(id, entry, enforce=None, replace=(), loops=False, props=('C18', 'C20'), **kw):
    d = dict(id=id, entry=entry, enforce=enforce, replace=list(replace), loops=loops, props=list(props))
    d.update(kw)
    UNIT['runs'].append(d)

R('roundtrip', 'h_topic_roundtrip', None, unwind=12, defines=['VSTR_CAP=10', 'PCAP=5'], cost=200, timeout=2400,
  bounded='templates of up to 5 parts, constants and identifiers up to 2 characters, topics up to 10 characters (string model capacity)')
R('parse', 'h_topic_parse', None, unwind=12, defines=['VSTR_CAP=7', 'PCAP=7'], cost=200, timeout=2400,
  bounded='templates of up to 7 characters (string model capacity)')
R('parse9', 'h_topic_parse', None, unwind=12, defines=['VSTR_CAP=9', 'PCAP=9'], cost=1500, timeout=5000, tier='thorough',
  bounded='templates of up to 9 characters (string model capacity)')
R('split_topic', 'h_split_topic', None, unwind=12, defines=['VSTR_CAP=10', 'PCAP=5'], cost=60, timeout=1500,
  bounded='received topics up to 10 characters (string model capacity)')
