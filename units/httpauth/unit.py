ML_CPP = 'src/ebusd/mainloop.cpp'

# two statements of the /data branch of MainLoop::executeGet (fragments, R16): the authentication decision and the listing call that uses the levels
UNIT = dict(
    trusted=['UserList::checkSecret / getLevels are environment stubs (map lookups): a ghost verdict per (user, secret) and the level list stored for a user name; the statements between the two fragments (JSON header, definition upload) and the guard `if (ret == RESULT_OK)` around the listing are not extracted',
             'MessageMap::findAll is a stub recording its arguments (its own contract: level unit, run find_all)'],
    enums=[('src/lib/ebus/result.h', 'result_t')],
    cfg=dict(type_map={'string': 'vstr'}),
    functions=[
        dict(file=ML_CPP, name='MainLoop::executeGet', cname='ML_dataAuth', self=None, ret='void',
             params_c=['const vstr* user_p', 'const vstr* secret_p', 'result_t* ret_p'],
             fragment=dict(start=r'if \([^;{}]*m_userList\.checkSecret\(user, secret\)\) \{', end=r'\}\s*\*ostream << "\{";'),
             pre_subs=[(r'm_userList\.checkSecret\(user, secret\)', 'env_checkSecret(user_p, secret_p)', 1),
                       (r'\buser\.empty\(\)', 'vstr_empty(user_p)', (0, 3)), (r'\bsecret\.empty\(\)', 'vstr_empty(secret_p)', (0, 3)),
                       (r'\buser\.(length|size)\(\)', 'vstr_length(user_p)', (0, 3)), (r'\bsecret\.(length|size)\(\)', 'vstr_length(secret_p)', (0, 3)),
                       (r'\bret = ', '*ret_p = ', (1, 2))]),
        dict(file=ML_CPP, name='MainLoop::executeGet', cname='ML_dataList', self=None, ret='void',
             params_c=['int circuit', 'int name', 'const vstr* user_p', '_Bool exact', '_Bool withWrite', 'struct msglist* messages_p'],
             fragment=dict(start=r'm_messages->findAll\(circuit, name,', end=r'string lastName;'),
             pre_subs=[(r'm_messages->findAll\(', 'env_findAll(', 1), (r'getUserLevels\(user\)', 'env_user_levels(user_p)', (0, 1)), (r'&messages\)', 'messages_p)', 1)]),
        dict(file=ML_CPP, name='MainLoop::executeAuth', cname='ML_executeAuth', self=None, ret='result_t',
             params_c=['const struct argvec* args', 'vstr* user', 'struct tokout* ostream'],
             pre_subs=[(r'args\.size\(\)', 'args->n', 1),
                       (r'm_userList\.checkSecret\(args\[(\d)\], args\[(\d)\]\)', lambda m: 'env_checkSecret(argvec_at(args, %s), argvec_at(args, %s))' % (m.group(1), m.group(2)), 1),
                       (r'\*user = args\[(\d)\];', lambda m: '*user = *argvec_at(args, %s);' % m.group(1), 1)],
             stream_out=dict(vars=['ostream'], min=2)),
    ],
    runs=[],
)


def R(id, entry, enforce=None, replace=(), loops=False, props=('C16', 'C20'), **kw):
    d = dict(id=id, entry=entry, enforce=enforce, replace=list(replace), loops=loops, props=list(props))
    d.update(kw)
    UNIT['runs'].append(d)

R('data_auth', 'h_data_auth', None, unwind=6, defines=['VSTR_CAP=3'], cost=5, bounded='user name and secret up to 3 characters (only their emptiness and the verdict of checkSecret matter)')
R('tcp_auth', 'h_tcp_auth', None, unwind=6, defines=['VSTR_CAP=3'], cost=5, bounded='user names and secrets up to 3 characters (compared by the checkSecret stub only)')
