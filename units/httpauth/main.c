/* unit httpauth: access levels used by HTTP GET /data (C16): the authentication decision and the listing call of MainLoop::executeGet
 * (two fragments, R16).  Back end B2. */
#include "vbase.h"
#include "vstr.h"
#include "gen_types.h"
struct msglist { int dummy; };
_Bool g_secret_ok; unsigned g_check_calls; const vstr* g_checked_user; const vstr* g_checked_secret;
/* UserList::checkSecret(user, secret): true iff the user is known and the stored secret equals the given one */
static inline _Bool env_checkSecret(const vstr* user, const vstr* secret) { g_check_calls = g_check_calls + 1; g_checked_user = user; g_checked_secret = secret; return g_secret_ok; }
/* UserList::getLevels(user): the level list stored for that name ("" = default levels) */
int g_levels_of_named, g_levels_default;       /* opaque level lists */
static inline int env_user_levels(const vstr* user) { return user->n == 0 ? g_levels_default : g_levels_of_named; }
unsigned g_findall_calls; int g_fa_levels, g_fa_circuit, g_fa_name; _Bool g_fa_complete, g_fa_read, g_fa_write, g_fa_passive, g_fa_incl_empty, g_fa_only_avail, g_fa_changed; long g_fa_since, g_fa_until;
static inline void env_findAll(int circuit, int name, int levels, _Bool completeMatch, _Bool withRead, _Bool withWrite, _Bool withPassive, _Bool includeEmptyLevel, _Bool onlyAvailable,
                               long since, long until, _Bool changedSince, struct msglist* messages) {
  g_findall_calls = g_findall_calls + 1; g_fa_levels = levels; g_fa_circuit = circuit; g_fa_name = name; g_fa_complete = completeMatch; g_fa_read = withRead; g_fa_write = withWrite;
  g_fa_passive = withPassive; g_fa_incl_empty = includeEmptyLevel; g_fa_only_avail = onlyAvailable; g_fa_since = since; g_fa_until = until; g_fa_changed = changedSince; (void)messages;
}
/* TCP command arguments (vector<string>) and the reply stream */
#define ARGCAP 5
struct argvec { vstr e[ARGCAP]; size_t n; };
static inline const vstr* argvec_at(const struct argvec* a, size_t i) { __CPROVER_assert(i < a->n, "[C20] vector<string>::operator[] index < size()"); return &a->e[i < ARGCAP ? i : 0]; }
struct tokout { unsigned n; };
static inline void out_str(struct tokout* o, const char* s) { (void)s; o->n = o->n + 1; }
#include "gen_protos.h"
#include "gen_funcs.inc"

vstr nondet_vstr(void);
/* HTTP GET /data?user=..&secret=..: levels beyond the default ones are used only after a successful secret check for exactly that user */
void h_data_auth(void) {
  vstr user = nondet_vstr(), secret = nondet_vstr(); __CPROVER_assume(vstr_valid(&user) && vstr_valid(&secret));
  g_secret_ok = nondet_bool(); g_check_calls = 0; g_findall_calls = 0; g_levels_of_named = nondet_int(); g_levels_default = nondet_int();
  __CPROVER_assume(g_levels_of_named != g_levels_default);
  result_t ret = RESULT_OK;            /* the query string was parsed without error */
  ML_dataAuth(&user, &secret, &ret);
  _Bool authenticated = g_check_calls >= 1 && g_secret_ok && g_checked_user == &user && g_checked_secret == &secret;
  __CPROVER_assert(ret == RESULT_OK || ret == RESULT_ERR_NOTAUTHORIZED, "[C16] the authentication step either passes or answers not authorized");
  if (ret == RESULT_OK) {
    __CPROVER_assert(user.n == 0 || authenticated, "[C16] a request naming a user goes on only after the secret check for that user and the given secret succeeded (a missing secret is a failed authentication)");
    __CPROVER_assert(secret.n == 0 || authenticated, "[C16] a request giving a secret goes on only if it authenticates");
    /* the listing (guarded by ret == RESULT_OK in the code between the fragments) */
    struct msglist ml; int circuit = nondet_int(), name = nondet_int(); _Bool exact = nondet_bool(), withWrite = nondet_bool();
    ML_dataList(circuit, name, &user, exact, withWrite, &ml);
    __CPROVER_assert(g_findall_calls == 1 && g_fa_circuit == circuit && g_fa_name == name, "[C16] one listing for the requested circuit and name");
    __CPROVER_assert(g_fa_levels == (user.n == 0 ? g_levels_default : g_levels_of_named), "[C16] the listing uses the levels of the authenticated user, the default levels without user");
    __CPROVER_assert(g_fa_levels == g_levels_default || authenticated, "[C16] failed or missing authentication grants only the default levels");
    __CPROVER_assert(g_fa_only_avail, "[C16] only available definitions are listed");
    if (user.n > 0) { CANARY("authenticated user"); } else { CANARY("anonymous request"); }
  } else {
    __CPROVER_assert((user.n > 0 || secret.n > 0) && !g_secret_ok, "[C16] not authorized is answered only when credentials were given and did not check out");
    CANARY("rejected");
  }
}

/* TCP command "auth USER SECRET": the connection's user changes only to a user whose secret was checked successfully */
void h_tcp_auth(void) {
  struct argvec args; struct tokout out; out.n = 0; vstr user = nondet_vstr(); vstr user0 = user;
  args.n = nondet_size(); __CPROVER_assume(args.n <= ARGCAP && vstr_valid(&user));
  for (size_t k = 0; k < ARGCAP; k++) { args.e[k] = nondet_vstr(); __CPROVER_assume(vstr_valid(&args.e[k])); }
  g_secret_ok = nondet_bool(); g_check_calls = 0;
  result_t r = ML_executeAuth(&args, &user, &out);
  _Bool same = user.n == user0.n; for (size_t j = 0; j < VSTR_CAP; j++) { if (j < user.n && user.d[j] != user0.d[j]) same = 0; }
  _Bool authenticated = args.n == 3 && g_check_calls == 1 && g_secret_ok && g_checked_user == &args.e[1] && g_checked_secret == &args.e[2];
  if (!authenticated) { __CPROVER_assert(same, "[C16] a failed or malformed auth command leaves the connection with the levels it had"); }
  else {
    _Bool is1 = user.n == args.e[1].n; for (size_t j = 0; j < VSTR_CAP; j++) { if (j < user.n && user.d[j] != args.e[1].d[j]) is1 = 0; }
    __CPROVER_assert(is1, "[C16] after a successful auth command the connection acts as exactly the authenticated user");
    CANARY("authenticated");
  }
  __CPROVER_assert(r == RESULT_OK, "[C16] auth always answers");
  if (args.n == 3 && !g_secret_ok) { CANARY("wrong secret"); }
}
