/* unit csv: CSV line splitting and quoting on output (C19): FileReader::splitFields / trim and AttributedItem::dumpString.
 * Back end B2, bounded string model. */
#include "vbase.h"
#include "vstr.h"
#include "gen_types.h"
#ifndef FLD_MAX
#define FLD_MAX 5
#endif
#define RCAP 4
#define LCAP 2
struct svec { vstr e[RCAP]; size_t n; };
struct istr { vstr lines[LCAP]; size_t n, pos; };
static inline vstr vstr_new(void) { vstr r; r.n = 0; for (size_t i = 0; i <= VSTR_CAP; i++) r.d[i] = 0; return r; }
static inline void vstr_clear(vstr* s) { for (size_t i = 0; i <= VSTR_CAP; i++) s->d[i] = 0; s->n = 0; }
static inline void vstr_push(vstr* s, char c) {
  __CPROVER_assert(s->n < VSTR_CAP, "model capacity: string grows beyond VSTR_CAP");
  if (s->n < VSTR_CAP) { s->d[s->n] = c; s->n = s->n + 1; s->d[s->n] = 0; }
}
static inline char vstr_last(const vstr* s) { __CPROVER_assert(s->n > 0, "[C20] *(end()-1) of a non-empty string"); return s->d[s->n > 0 ? s->n - 1 : 0]; }
static inline _Bool in_set(char c, const char* set) { return c == set[0] || (set[1] != 0 && c == set[1]); }     /* sets of one or two characters */
static inline size_t vstr_find_first_not_of(const vstr* s, const char* set) {
  size_t r = VSTR_NPOS;
  for (size_t i = 0; i < VSTR_CAP; i++) { if (r == VSTR_NPOS && i < s->n && !in_set(s->d[i], set)) r = i; }
  return r;
}
static inline size_t vstr_find_last_not_of(const vstr* s, const char* set) {
  size_t r = VSTR_NPOS;
  for (size_t i = 0; i < VSTR_CAP; i++) { if (i < s->n && !in_set(s->d[i], set)) r = i; }
  return r;
}
static inline void vstr_erase2(vstr* s, size_t pos) { vstr_erase(s, pos, VSTR_NPOS); }
#define VSEL3(a, b, c, name, ...) name
#define vstr_erase_from(...) VSEL3(__VA_ARGS__, vstr_erase, vstr_erase2, 0)(__VA_ARGS__)
static inline size_t vstr_ffo2(const vstr* s, char c) { return vstr_find_char(s, c, 0); }
#define vstr_find_first_of_char(...) VSEL3(__VA_ARGS__, vstr_find_char, vstr_ffo2, 0)(__VA_ARGS__)
static inline void vstr_append_sub(vstr* out, const vstr* s, size_t pos, size_t len) { vstr t = vstr_substr(s, pos, len); vstr_append(out, &t); }
static inline void svec_clear(struct svec* v) { v->n = 0; }
static inline void svec_push(struct svec* v, const vstr* s) { __CPROVER_assert(v->n < RCAP, "model capacity: more fields than RCAP"); if (v->n < RCAP) { v->e[v->n] = *s; v->n = v->n + 1; } }
static inline _Bool env_getline(struct istr* in, vstr* line) { if (in->pos >= in->n || in->pos >= LCAP) return 0; *line = in->lines[in->pos]; in->pos = in->pos + 1; return 1; }
static inline size_t env_hash(const vstr* s) { return nondet_size(); }
#include "gen_protos.h"
#include "gen_funcs.inc"

static inline _Bool vstr_same(const vstr* a, const vstr* b) {
  if (a->n != b->n) return 0;
  _Bool eq = 1;
  for (size_t i = 0; i < VSTR_CAP; i++) { if (i < a->n && a->d[i] != b->d[i]) eq = 0; }
  return eq;
}
vstr nondet_vstr(void);
/* a field value as it results from loading: no line breaks, no surrounding blanks */
static inline vstr any_field(void) {
  vstr f = nondet_vstr();
  __CPROVER_assume(f.n <= FLD_MAX);
  for (size_t i = 0; i <= VSTR_CAP; i++) { if (i >= f.n) __CPROVER_assume(f.d[i] == 0); else __CPROVER_assume(f.d[i] != 0 && f.d[i] != '\n' && f.d[i] != '\r'); }
  if (f.n > 0) __CPROVER_assume(f.d[0] != ' ' && f.d[0] != '\t' && f.d[f.n - 1] != ' ' && f.d[f.n - 1] != '\t');
  return f;
}
/* one field written with dumpString and read back with splitFields; a second line follows in the stream */
static inline void two_lines(struct istr* in, const vstr* first) { in->lines[0] = *first; in->lines[1] = vstr_new(); in->lines[1].d[0] = 'x'; in->lines[1].n = 1; in->n = 2; in->pos = 0; }
void h_roundtrip1(void) {
  vstr f = any_field(); vstr out = vstr_new(); struct istr in; struct svec row; unsigned lineNo = nondet_uint();
  __CPROVER_assume(lineNo >= 1 && lineNo < 1000000 && f.n > 0);       /* (an empty line is skipped like a comment line) */
  __CPROVER_assume(!(f.d[0] == '#') && !(f.n > 1 && f.d[0] == '/' && f.d[1] == '/'));     /* a line starting so is a comment line */
  AttributedItem_dumpString(0, &f, &out);
  two_lines(&in, &out); row.n = nondet_size(); __CPROVER_assume(row.n <= RCAP);
  _Bool r = FileReader_splitFields(&in, &row, &lineNo, NULL, NULL, 1);
  __CPROVER_assert(r, "[C19] a line was read");
  __CPROVER_assert(in.pos == 1, "[C19] a written field occupies exactly one line (the following line is not swallowed)");
  __CPROVER_assert(row.n == 1, "[C19] one written field is read back as one field");
  __CPROVER_assert(vstr_same(&row.e[0], &f), "[C19] a field written with quoting is read back unchanged (separators, quotes)");
  CANARY("one field");
}
/* two fields */
void h_roundtrip2(void) {
  vstr f = any_field(), g = any_field(); vstr out = vstr_new(); struct istr in; struct svec row; unsigned lineNo = nondet_uint();
  __CPROVER_assume(lineNo >= 1 && lineNo < 1000000 && (f.n > 0 || g.n > 0));
  __CPROVER_assume(!(f.n > 0 && f.d[0] == '#') && !(f.n > 1 && f.d[0] == '/' && f.d[1] == '/'));
  AttributedItem_dumpString(0, &f, &out);
  AttributedItem_dumpString(1, &g, &out);
  two_lines(&in, &out); row.n = 0;
  _Bool r = FileReader_splitFields(&in, &row, &lineNo, NULL, NULL, 1);
  __CPROVER_assert(r, "[C19] a line was read");
  __CPROVER_assert(in.pos == 1, "[C19] written fields occupy exactly one line (the following line is not swallowed)");
  __CPROVER_assert(row.n == 2, "[C19] two written fields are read back as two fields");
  __CPROVER_assert(vstr_same(&row.e[0], &f) && vstr_same(&row.e[1], &g), "[C19] fields written with quoting are read back unchanged (separators, quotes)");
  CANARY("two fields");
}
