FR_CPP = 'src/lib/ebus/filereader.cpp'
FR_H = 'src/lib/ebus/filereader.h'
DATA_CPP = 'src/lib/ebus/data.cpp'


def _replay(run, inputs, rp, repo, verif):
    import replay
    exe = replay.build('csv', ['src/lib/ebus/data.cpp', 'src/lib/ebus/datatype.cpp', 'src/lib/ebus/symbol.cpp', 'src/lib/ebus/result.cpp', 'src/lib/ebus/filereader.cpp', 'src/lib/ebus/contrib/contrib.cpp', 'src/lib/ebus/contrib/tem.cpp'], repo, verif)
    return replay.run(exe, [run['id']])


_SPLIT = [
    (r'getline\(\*stream, line\)', 'env_getline(stream, &line)', 1),
    (r'ostringstream field;', 'vstr field = vstr_new();', 1),
    (r'string line;', 'vstr line = vstr_new();', 1),
    (r'hashFunction\(line\)', 'env_hash(&line)', 1),
    (r'field << ch;', 'vstr_push(&field, ch);', 4),
    (r'field << TEXT_SEPARATOR;', 'vstr_push(&field, TEXT_SEPARATOR);', 1),
    (r'field << VALUE_SEPARATOR;', 'vstr_push(&field, VALUE_SEPARATOR);', 1),
    (r'string str = field\.str\(\);', 'vstr str = field;', 2),
    (r'field\.str\(""\);', 'vstr_clear(&field);', 1),
    (r'field\.tellp\(\) > 0 && \*\(field\.str\(\)\.end\(\)-1\) != VALUE_SEPARATOR', 'field.n > 0 && vstr_last(&field) != VALUE_SEPARATOR', 1),
    (r'row->push_back\(str\);', 'svec_push(row, &str);', 2),
    (r'row->clear\(\);', 'svec_clear(row);', 2),
    (r'trim\(&line\);', 'FileReader_trim(&line);', 1),
    (r'trim\(&str\);', 'FileReader_trim(&str);', 2),
    (r'line\[(\w+)\]', 'LINE_AT', None),
]

UNIT = dict(
    replay=_replay,
    trusted=['std::string / ostringstream are bounded value models (capacity per run, stated as bound); istream::getline yields the lines of a fixed-capacity line array; vector<string> is a fixed-capacity array; hashFunction is an uninterpreted stub (hash/size bookkeeping is not part of the property)'],
    defines=[(FR_H, ['FIELD_SEPARATOR', 'TEXT_SEPARATOR', 'VALUE_SEPARATOR'])],
    cfg=dict(
        type_map={'string': 'vstr', 'istream': 'struct istr', 'ostream': 'vstr', 'vector<string>': 'struct svec'},
        methods={'size': 'vstr_size', 'length': 'vstr_length', 'empty': 'vstr_empty', 'find_first_not_of': 'vstr_find_first_not_of', 'find_last_not_of': 'vstr_find_last_not_of', 'erase': 'vstr_erase_from',
                 'find_first_of': 'vstr_find_first_of_char', 'substr': 'vstr_substr_from'},
        text_subs=[(r'vstr::npos', 'VSTR_NPOS'), (r'vstr::size_type', 'size_t'), (r'\(\*str\)\[([^\]]+)\]', r'vstr_at(str, \1)')],
    ),
    functions=[
        dict(file=FR_CPP, name='FileReader::trim', cname='FileReader_trim', self=None),
        dict(file=FR_CPP, name='FileReader::splitFields', cname='FileReader_splitFields', self=None, pre_subs=_SPLIT[:-1] + [(r'line\[pos\]', 'vstr_at(&line, pos)', 1), (r'line\[0\]', 'vstr_at(&line, 0)', 2), (r'line\[1\]', 'vstr_at(&line, 1)', 1)]),
        dict(file=DATA_CPP, name='AttributedItem::dumpString', cname='AttributedItem_dumpString', self=None,
             pre_subs=[(r'\*output << FIELD_SEPARATOR;', 'vstr_push(output, FIELD_SEPARATOR);', 1),
                       (r'\*output << str;', 'vstr_append(output, &str);', 1),
                       (r'\*output << TEXT_SEPARATOR << str << TEXT_SEPARATOR;', 'vstr_push(output, TEXT_SEPARATOR); vstr_append(output, &str); vstr_push(output, TEXT_SEPARATOR);', 1),
                       (r'\*output << TEXT_SEPARATOR;', 'vstr_push(output, TEXT_SEPARATOR);', 1),
                       (r'\*output << str\.substr\(last, pos - last\);', 'vstr_append_sub(output, &str, last, pos - last);', 1),
                       (r'\*output << TEXT_SEPARATOR << TEXT_SEPARATOR;', 'vstr_push(output, TEXT_SEPARATOR); vstr_push(output, TEXT_SEPARATOR);', 1),
                       (r'\*output << str\.substr\(last\) << TEXT_SEPARATOR;', 'vstr_append_sub(output, &str, last, VSTR_NPOS); vstr_push(output, TEXT_SEPARATOR);', 1)]),
    ],
    runs=[],
)


def R(id, entry, enforce=None, replace=(), loops=False, props=('C19', 'C20'), **kw):
    d = dict(id=id, entry=entry, enforce=enforce, replace=list(replace), loops=loops, props=list(props))
    d.update(kw)
    UNIT['runs'].append(d)

R('roundtrip1', 'h_roundtrip1', None, unwind=16, defines=['VSTR_CAP=14', 'FLD_MAX=6'], cost=120, timeout=1500, bounded='one field of up to 6 characters (full character set)')
R('roundtrip2', 'h_roundtrip2', None, unwind=20, defines=['VSTR_CAP=18', 'FLD_MAX=3'], cost=120, timeout=1800, bounded='two fields of up to 3 characters each (full character set)')
