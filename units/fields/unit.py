DATA_CPP = 'src/lib/ebus/data.cpp'
DATA_H = 'src/lib/ebus/data.h'
SYM_H = 'src/lib/ebus/symbol.h'

_M = {'m_fields', 'm_length', 'm_dataType', 'm_partType', 'm_uniqueNames'}
_HFB = (r'SDF_hasFullByteOffset\((\w+), (true|false), ([^()]+(?:\[[^\]]*\])?)\)', r'SDF_hasFullByteOffset(\1, \2, &(\3))')

UNIT = dict(
    trusted=['SingleDataField::read/write/getLength are environment stubs that record the offset they are called with (their own locality is decided in unit number); std::vector<const SingleDataField*> is a fixed-capacity array (8 fields in the model, MAX_POS is 24); getline/istringstream token handling is abstracted'],
    enums=[('src/lib/ebus/result.h', 'result_t'), (SYM_H, 'PredefinedSymbol', 'PredefinedSymbol', 'symbol_t'), ('src/lib/ebus/datatype.h', 'PartType'), ('src/lib/ebus/datatype.h', 'OutputFormat', 'OutputFormatE')],
    structs=[dict(file=SYM_H, classes=['SymbolString'], cname='SymbolString', member_types={'m_data': 'vsym'}, is_self=False)],
    cfg=dict(
        type_map={'string': 'vstr', 'istringstream': 'struct iss', 'ostream': 'struct oss', 'OutputFormat': 'unsigned'},
        members=_M,
        ranges={'m_fields': ('const struct SDF*', 'fvec_size', 'fvec_at')},
        methods={'getPartType': 'SDF_getPartType', 'hasFullByteOffset': 'SDF_hasFullByteOffset', 'getLength': 'SDF_getLength', 'isIgnored': 'SDF_isIgnored', 'getName': 'SDF_getName',
                 'isMaster': 'SymbolString_isMaster', 'getDataSize': 'SymbolString_getDataSize', 'size': 'fvec_size', 'clear': 'vstr_clear',
                 'isNumeric': 'DataType_isNumeric', 'getFirstBit': 'NDT_getFirstBit', 'getBitCount': 'DataType_getBitCount'},
        text_subs=[_HFB, (r'SDF_read5\(field, \(\*data\)', 'SDF_read5(field, data'), (r'SDF_read8\(field, \(\*data\)', 'SDF_read8(field, data'), (r'fieldName == SDF_getName\(field, -1\)', 'env_name_eq(fieldName, field)'), (r'\bssize_t\b', 'long'),
                   (r'const NumberDataType\* num = \(const NumberDataType\*\)\(self->m_dataType\);', 'const struct DataType* num = self->m_dataType;'),
                   (r'\(\*previousFirstBit\) = ', '*previousFirstBit = ')],
    ),
    functions=[
        dict(file=DATA_CPP, name='SingleDataField::hasFullByteOffset', cname='SDF_hasFullByteOffset', self='struct SDF'),
        dict(file=DATA_CPP, name='DataFieldSet::getLength', cname='DFS_getLength', self='struct DFS'),
        dict(file=DATA_CPP, name='DataFieldSet::read', sig='unsigned int* output', cname='DFS_read_num', self='struct DFS', cfg=dict(methods={'read': 'SDF_read5'})),
        dict(file=DATA_CPP, name='DataFieldSet::read', sig='ostream* output', cname='DFS_read_str', self='struct DFS', cfg=dict(methods={'read': 'SDF_read8'})),
        dict(file=DATA_CPP, name='DataFieldSet::write', cname='DFS_write', self='struct DFS', cfg=dict(methods={'write': 'SDF_write'}),
             pre_subs=[(r'!getline\(\*input, token, separator\)', '!env_getline(input, &token, separator)', 1), (r'istringstream single\(token\);', 'struct iss single = env_iss(&token);', 1)]),
    ],
    runs=[],
)


def R(id, entry, enforce=None, replace=(), loops=False, props=('C10', 'C20'), **kw):
    d = dict(id=id, entry=entry, enforce=enforce, replace=list(replace), loops=loops, props=list(props))
    d.update(kw)
    UNIT['runs'].append(d)

R('layout', 'h_layout', None, unwind=10, defines=['VSTR_CAP=4', 'SS_CAP=64', 'FCAP=8'], cost=60, timeout=900, solver='kissat',
  bounded='field sets of up to 8 fields (MAX_POS is 24)')
R('layout12', 'h_layout', None, unwind=14, defines=['VSTR_CAP=4', 'SS_CAP=64', 'FCAP=12'], cost=200, timeout=1800, solver='kissat', tier='thorough',
  bounded='field sets of up to 12 fields (MAX_POS is 24)')
