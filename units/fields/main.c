/* unit fields: byte/bit offset bookkeeping of DataFieldSet::getLength / read / write and SingleDataField::hasFullByteOffset (C10).
 * Back end B2; field count bounded by the model capacity FCAP. */
#include "vbase.h"
#include "vstr.h"
#include "vvec.h"
typedef long ssize_t;
#include "gen_types.h"
struct DataType { _Bool numeric; size_t bitCount; int16_t firstBit; };
struct SDF { size_t m_length; const struct DataType* m_dataType; PartType m_partType; _Bool ignored; size_t idx; };
#ifndef FCAP
#define FCAP 8
#endif
struct fvec { const struct SDF* e[FCAP]; size_t n; };
struct DFS { struct fvec m_fields; _Bool m_uniqueNames; };
struct iss { int dummy; }; struct oss { int dummy; };
static inline size_t fvec_size(const struct fvec* v) { return v->n; }
static inline const struct SDF* fvec_at(const struct fvec* v, size_t i) { __CPROVER_assert(i < v->n && i < FCAP, "[C20] field index in range"); return v->e[i < FCAP ? i : 0]; }
static inline PartType SDF_getPartType(const struct SDF* f) { return f->m_partType; }
static inline _Bool SDF_isIgnored(const struct SDF* f) { return f->ignored; }
static inline _Bool DataType_isNumeric(const struct DataType* t) { return t->numeric; }
static inline size_t DataType_getBitCount(const struct DataType* t) { return t->bitCount; }
static inline int16_t NDT_getFirstBit(const struct DataType* t) { return t->firstBit; }
static inline _Bool SymbolString_isMaster(const SymbolString* s) { return s->m_isMaster; }
static inline size_t SymbolString_getDataSize(const SymbolString* s) { return 255; }     /* enough data: lengths are fixed in this model */
static inline void vstr_clear(vstr* s) { s->n = 0; s->d[0] = 0; }
static inline _Bool env_name_eq(const char* name, const struct SDF* f) { return nondet_bool(); }
/* the input text: g_tok_avail values separated by the separator; getline hands them out in order (token number 1, 2, ...) */
unsigned g_tok_next, g_tok_avail; int g_field_tok[FCAP];
static inline _Bool env_getline(struct iss* in, vstr* tok, char sep) { if (g_tok_next >= g_tok_avail) return 0; g_tok_next = g_tok_next + 1; tok->n = 1; tok->d[0] = (char)g_tok_next; tok->d[1] = 0; return 1; }
static inline struct iss env_iss(const vstr* s) { struct iss r; r.dummy = s->n ? (int)s->d[0] : 0; return r; }
/* per-field operations: fixed length fields; the offset each one is called with is recorded */
size_t g_read_off[FCAP], g_reads_off[FCAP], g_write_off[FCAP]; unsigned g_read_calls[FCAP], g_reads_calls[FCAP], g_write_calls[FCAP];
static inline size_t SDF_getLength(const struct SDF* f, PartType pt, size_t maxLength) { return pt == f->m_partType ? f->m_length : 0; }
static inline result_t SDF_read5(const struct SDF* f, const SymbolString* data, size_t offset, const char* name, ssize_t idx, unsigned* out) {
  g_read_off[f->idx < FCAP ? f->idx : 0] = offset; g_read_calls[f->idx < FCAP ? f->idx : 0]++; return nondet_bool() ? RESULT_OK : RESULT_EMPTY;
}
static inline result_t SDF_read8(const struct SDF* f, const SymbolString* data, size_t offset, _Bool lead, const char* name, ssize_t idx, unsigned fmt, ssize_t oidx, struct oss* out) {
  g_reads_off[f->idx < FCAP ? f->idx : 0] = offset; g_reads_calls[f->idx < FCAP ? f->idx : 0]++; return nondet_bool() ? RESULT_OK : RESULT_EMPTY;
}
static inline result_t SDF_write(const struct SDF* f, char sep, size_t offset, struct iss* in, SymbolString* data, size_t* len) {
  g_write_off[f->idx < FCAP ? f->idx : 0] = offset; g_write_calls[f->idx < FCAP ? f->idx : 0]++; g_field_tok[f->idx < FCAP ? f->idx : 0] = in->dummy; *len = f->m_length; return RESULT_OK;
}
#include "gen_protos.h"
#include "gen_funcs.inc"

/* ---- layout obligations (from property C10): length computation, decoding and encoding visit the fields of the part at the same
   positions; fields follow each other without gaps; only a bit field may share the byte of the preceding bit field, and it does so when
   that field left the byte incomplete and it starts at another bit; the length is the number of bytes spanned.
   Not pinned down: whether a byte is still open after two consecutive bit fields with the same first bit (the code closes it). ---- */
static inline _Bool is_bitfield(const struct SDF* f) { return f->m_length == 1 && (f->m_dataType->bitCount % 8) != 0; }
struct DataType nondet_DT(void);
void h_layout(void) {
  struct DFS set; struct SDF f[FCAP]; struct DataType t[FCAP]; SymbolString data; struct iss in; size_t base = nondet_size(), used = 0; unsigned out;
  for (int i = 0; i < FCAP; i++) {
    t[i] = nondet_DT(); f[i].m_dataType = &t[i]; f[i].idx = i; set.m_fields.e[i] = &f[i]; g_read_calls[i] = 0; g_reads_calls[i] = 0; g_write_calls[i] = 0;
    __CPROVER_assume(f[i].m_partType == pt_masterData || f[i].m_partType == pt_slaveData);
    __CPROVER_assume(f[i].m_length >= 1 && f[i].m_length <= 31 && t[i].bitCount >= 1);
    /* well-formed field definitions: bit types occupy one byte, byte types have 8*length bits */
    __CPROVER_assume((t[i].bitCount < 8) ? (f[i].m_length == 1 && t[i].numeric && t[i].firstBit >= 0 && (size_t)t[i].firstBit + t[i].bitCount <= 8)
                                         : (t[i].bitCount == 8 * f[i].m_length && t[i].firstBit == 0));
  }
  __CPROVER_assume(set.m_fields.n >= 1 && set.m_fields.n <= FCAP && base <= 16 && data.m_data.n <= SS_CAP);
  PartType pt = data.m_isMaster ? pt_masterData : pt_slaveData;
  size_t len = DFS_getLength(&set, pt, 255);
  result_t rr = DFS_read_num(&set, &data, base, NULL, -1, &out);
  struct oss os; long oidx = nondet_long(); __CPROVER_assume(oidx >= -1 && oidx <= 1000);
  result_t rs = DFS_read_str(&set, &data, base, nondet_bool(), NULL, -1, nondet_uint(), oidx, &os);
  g_tok_next = 0; g_tok_avail = nondet_uint(); __CPROVER_assume(g_tok_avail <= FCAP); in.dummy = -1;
  result_t wr = DFS_write(&set, ';', base, &in, &data, &used);
  __CPROVER_assert(wr == RESULT_OK && used == len, "[C10] length computation and encoding agree on the number of bytes");
  /* walk over the fields with the end / kind of the preceding field of the same part */
  _Bool have_prev = 0, pbit = 0, pquirk = 0; size_t pend = base; int pfb = -1; size_t pbc = 0; unsigned shared = 0; unsigned rank = 0;
  for (int i = 0; i < FCAP; i++) {
    if ((size_t)i < set.m_fields.n) {
      if (f[i].m_partType == pt) {
        __CPROVER_assert(g_read_calls[i] == 1 && g_reads_calls[i] == 1 && g_write_calls[i] == 1, "[C10] every field of the part is decoded (numeric and text form) and encoded once");
        __CPROVER_assert(g_read_off[i] == g_write_off[i] && g_reads_off[i] == g_write_off[i], "[C10] decoding and encoding use the same position for every field");
        if (set.m_fields.n > 1) {
          /* which part of the input text goes to which field: ignored fields take none, the others take the values in order */
          int expect_tok = f[i].ignored ? 0 : (rank < g_tok_avail ? (int)rank + 1 : 0);
          __CPROVER_assert(g_field_tok[i] == expect_tok, "[C06,C09,C10] the k-th value of the input text is encoded by the k-th non-ignored field of the part (missing values: empty input)");
          if (!f[i].ignored) rank++;
        } else { __CPROVER_assert(g_field_tok[i] == -1, "[C06,C10] a single field gets the whole input text"); }
        size_t off = g_write_off[i]; _Bool bit = is_bitfield(&f[i]); int fb = t[i].firstBit;
        if (!have_prev) { __CPROVER_assert(off == base, "[C10] the first field starts at the given offset"); }
        else {
          _Bool may_share = bit && pbit;
          __CPROVER_assert(off == pend || (may_share && off + 1 == pend), "[C10] fields follow each other without gaps; only a bit field may share the byte of the preceding bit field");
          if (may_share) {
            _Bool open = pfb + (int)pbc < 8 && fb != pfb;
            __CPROVER_assert(off == pend || open, "[C10] a byte is shared only if the preceding bit field left it incomplete and the field starts at another bit");
            __CPROVER_assert(off + 1 == pend || !open || pquirk, "[C10] a bit field shares the byte the preceding bit field left incomplete when it starts at another bit");
            if (off + 1 == pend) shared++;
          }
        }
        pquirk = bit && pbit && have_prev && fb == pfb;
        pend = off + f[i].m_length; pbit = bit; pfb = fb; pbc = t[i].bitCount; have_prev = 1;
      } else {
        __CPROVER_assert(g_read_calls[i] == 0 && g_reads_calls[i] == 0 && g_write_calls[i] == 0, "[C10] fields of the other part are not touched");
      }
    }
  }
  __CPROVER_assert(len == pend - base, "[C10] the data length is the number of bytes spanned by the fields of the part");
  if (shared >= 3) { CANARY("bit fields share bytes"); }
  if (rank >= 3 && g_tok_avail == 2) { CANARY("fewer values than fields"); }
  if (set.m_fields.n == FCAP && len > 20) { CANARY("eight fields"); }
}
