DT_CPP = 'src/lib/ebus/datatype.cpp'


def _replay(run, inputs, rp, repo, verif):
    import replay
    exe = replay.build('knxfloat', ['src/lib/ebus/datatype.cpp', 'src/lib/ebus/symbol.cpp', 'src/lib/ebus/result.cpp', 'src/lib/ebus/contrib/contrib.cpp', 'src/lib/ebus/contrib/tem.cpp'], repo, verif)
    return replay.run(exe, [run['id']])


UNIT = dict(
    replay=_replay,
    trusted=['ilogb() is modelled by the exponent field of the IEEE-754 double (FP_ILOGB0 = INT_MIN for 0, as glibc); exp2() of a small integer is an exact table of powers of two; round() and the double/float arithmetic are CBMC\'s IEEE-754'],
    cfg=dict(auto_types={'shift': 'int', 'sig': 'uint16_t'}, text_subs=[(r'\bexp2\(', 'knx_exp2('), (r'\bilogb\(', 'knx_ilogb(')]),
    functions=[
        dict(file=DT_CPP, name='uint16ToFloat', cname='uint16ToFloat', self=None),
        dict(file=DT_CPP, name='floatToUint16', cname='floatToUint16', self=None),
    ],
    runs=[],
)


def R(id, entry, enforce=None, replace=(), loops=False, props=('C05', 'C06', 'C07', 'C20'), **kw):
    d = dict(id=id, entry=entry, enforce=enforce, replace=list(replace), loops=loops, props=list(props))
    d.update(kw)
    UNIT['runs'].append(d)

R('decode', 'h_decode', None, unwind=18, cost=30, timeout=1200, props=('C05', 'C20'))
R('fixpoint', 'h_fixpoint', None, unwind=18, cost=600, timeout=2400, props=('C06', 'C20'), tier='thorough')
R('encode', 'h_encode', None, unwind=18, cost=120, timeout=1800, props=('C07', 'C20'))
