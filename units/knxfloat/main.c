/* unit knxfloat: KNX 16 bit float (DPT 9) conversions uint16ToFloat / floatToUint16 (C05, C06, C07, C20).  Back end B2, full 16 bit / float domain. */
#include "vbase.h"
#include <math.h>
#include "gen_types.h"
/* exp2 of a small integer: exact */
static inline double knx_exp2(int k) { __CPROVER_assert(k >= -16 && k <= 16, "model: exp2 only for the exponents of the format"); double r = 1.0; for (int i = 0; i < 16; i++) { if (i < k) r = r * 2.0; if (i < -k) r = r * 0.5; } return r; }
/* ilogb of a double: exponent field; 0 -> FP_ILOGB0 (INT_MIN), inf/NaN -> INT_MAX (glibc) */
static inline int knx_ilogb(double x) {
  union { double d; unsigned long u; } v; v.d = x; unsigned long e = (v.u >> 52) & 0x7ff;
  if (x == 0.0) return (-2147483647 - 1);
  if (e == 0x7ff) return 2147483647;
  __CPROVER_assert(e != 0, "model: ilogb of a subnormal double is not needed");
  return (int)e - 1023;
}
#include "gen_protos.h"
#include "gen_funcs.inc"

unsigned short nondet_ushort(void);
/* mantissa (two's complement, 12 bit incl. sign) and exponent of a pattern */
static inline long spec_m(unsigned v) { long sig = v & 0x7ff; return (v & 0x8000) ? sig - 0x800 : sig; }
static inline int spec_e(unsigned v) { return (v >> 11) & 0xf; }
/* decoding: value = 0.01 * m * 2^e */
void h_decode(void) {
  unsigned short v = nondet_ushort();
  float f = uint16ToFloat(v);
  if (v == 0x7fff) { __CPROVER_assert(f != f, "[C05] the invalid pattern 7fff decodes to no value"); }
  else {
    double exact100 = (double)(spec_m(v) * (1L << spec_e(v)));          /* 100 * value: an integer below 2^27, exact in double */
    double err = 100.0 * (double)f - exact100; if (err < 0) err = -err;
    double mag = exact100 < 0 ? -exact100 : exact100;
    __CPROVER_assert(err <= mag / 4194304.0 + 1e-9, "[C05] a KNX float decodes to 0.01 * mantissa * 2^exponent (within float precision)");
    CANARY("decoded");
  }
}
/* re-encoding a decoded value gives the same value again */
void h_fixpoint(void) {
  unsigned short v = nondet_ushort();
  /* f800 (mantissa -2048 at the largest exponent) is the one pattern the encoder never produces: the project's own test pins -671088.62 to f801 */
  __CPROVER_assume(v != 0x7fff && v != 0xf800);
  float f = uint16ToFloat(v);
  unsigned short w = floatToUint16(f);
  float g = uint16ToFloat(w);
  __CPROVER_assert(w != 0x7fff, "[C06] a decoded value can be encoded again");
  __CPROVER_assert(f == g, "[C06] encoding a decoded KNX float and decoding it again gives the same value (encode-decode-encode is a fixed point)");
  CANARY("fixpoint");
}
/* encoding any float: in range -> within one resolution step, out of range -> invalid; no undefined behaviour */
float nondet_float(void);
void h_encode(void) {
  float x = nondet_float();
  __CPROVER_assume(x == x && x > -700000.0f && x < 700000.0f);
  unsigned short w = floatToUint16(x);
  double ax = x < 0 ? -(double)x : (double)x;
  if (w != 0x7fff) {
    float g = uint16ToFloat(w);
    double step = 0.01 * (double)(1L << spec_e(w));
    double d = (double)g - (double)x; if (d < 0) d = -d;
    __CPROVER_assert(d <= step + ax / 4194304.0, "[C07] an encoded value decodes to a number within one resolution step of the requested value (plus float precision)");
    CANARY("encoded");
  } else {
    __CPROVER_assert(ax > 670433.0, "[C07] only values beyond the range of the format are encoded as invalid");
    CANARY("invalid");
  }
}
