DATA_CPP = 'src/lib/ebus/data.cpp'
DT_H = 'src/lib/ebus/datatype.h'
SYM_H = 'src/lib/ebus/symbol.h'

_WR = [(r'const string inputStr = input->str\(\);', 'const int inputStr = env_input_name(input);', 1),
       (r'inputStr == NULL_VALUE', 'inputStr == NAME_NULL', 1),
       (r'for \(const auto& it : m_values\) \{\s*if \(it\.second == inputStr\) \{\s*return numType->writeRawValue\(it\.first,', 'for (size_t it_ = 0; it_ < vmap_size(&self->m_values); it_++) {\n    if (vmap_name_at(&self->m_values, it_) == inputStr) {\n      return numType->writeRawValue(vmap_key_at(&self->m_values, it_),', 1),
       (r'const char\* str = inputStr\.c_str\(\);', 'const char* str = env_input_cstr(input);', 1),
       (r'm_values\.find\(((?:[^()]|\([^()]*\))*)\) != m_values\.end\(\)', lambda m: 'vmap_find(&self->m_values, %s) != VMAP_END' % m.group(1), 1)]
_RD = [(r'const auto it = m_values\.find\(value\);', 'const size_t it = vmap_find(&self->m_values, value);', 1),
       (r'it == m_values\.end\(\)', 'it == VMAP_END', 2),
       (r'it->second', 'NAME_TOKEN(vmap_name_at(&self->m_values, it))', 3)]

def _replay(run, inputs, rp, repo, verif):
    import replay
    exe = replay.build('valuelist', ['src/lib/ebus/data.cpp', 'src/lib/ebus/datatype.cpp', 'src/lib/ebus/symbol.cpp', 'src/lib/ebus/result.cpp', 'src/lib/ebus/filereader.cpp',
                                     'src/lib/ebus/contrib/contrib.cpp', 'src/lib/ebus/contrib/tem.cpp'], repo, verif)
    return replay.run(exe, [run['id']])


UNIT = dict(
    replay=_replay,
    trusted=['std::map<unsigned, string> is a sorted array of (value, name id) pairs with distinct values (capacity 4); names are compared as identifiers (name ids), the user input is one such identifier or a number text; NumberDataType::readRawValue / writeRawValue are stubs (decided in unit number); strtoul is the ghost-reading stub of unit number',
             'std::ostream formatting is a token model (rule R11)'],
    defines=[(DT_H, ['NULL_VALUE'])],
    enums=[('src/lib/ebus/result.h', 'result_t'), (SYM_H, 'PredefinedSymbol', 'PredefinedSymbol', 'symbol_t'), (DT_H, 'OutputFormat', 'OutputFormatE')],
    structs=[dict(file=SYM_H, classes=['SymbolString'], cname='SymbolString', member_types={'m_data': 'vsym'}, is_self=False)],
    cfg=dict(
        type_map={'ostream': 'struct tokout', 'OutputFormat': 'unsigned', 'istringstream': 'struct iss', 'NumberDataType': 'struct NDT'},
        members={'m_values', 'm_dataType', 'm_length'},
        methods={'readRawValue': 'NDT_readRawValue', 'writeRawValue': 'NDT_writeRawValue', 'getReplacement': 'NDT_getReplacement'},
        own_methods={'isIgnored': ('VLF_isIgnored', 'self')},
        text_subs=[(r'\(const struct NDT\*\)\(self->m_dataType\)', 'self->m_dataType'), (r'\bstrtoull?\(', 'env_strtoul(')],
    ),
    functions=[
        dict(file=DATA_CPP, name='ValueListDataField::readSymbols', cname='VLF_readSymbols', self='struct VLF', pre_subs=_RD,
             stream_out=dict(vars=['output'], str_macros=('NULL_VALUE',), min=8)),
        dict(file=DATA_CPP, name='ValueListDataField::writeSymbols', cname='VLF_writeSymbols', self='struct VLF', pre_subs=_WR),
    ],
    runs=[],
)


def R(id, entry, enforce=None, replace=(), loops=False, props=('C05', 'C06', 'C07', 'C20'), **kw):
    d = dict(id=id, entry=entry, enforce=enforce, replace=list(replace), loops=loops, props=list(props))
    d.update(kw)
    UNIT['runs'].append(d)

R('read', 'h_read', None, unwind=6, defines=['SS_CAP=8'], cost=10, props=('C05', 'C12', 'C20'))
R('write', 'h_write', None, unwind=6, defines=['SS_CAP=8'], cost=10, props=('C06', 'C07', 'C20'))
