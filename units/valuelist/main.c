/* unit valuelist: value=name lists (C05 decode, C06/C07 encode): ValueListDataField::readSymbols / writeSymbols.  Back end B2. */
#include "vbase.h"
#include "vvec.h"
#include "gen_types.h"
#define VCAP 4
struct NDT { unsigned m_replacement; _Bool ignored; };
struct vmap { unsigned key[VCAP]; int name[VCAP]; size_t n; };          /* sorted by key, keys distinct (std::map) */
struct VLF { struct vmap m_values; const struct NDT* m_dataType; size_t m_length; };
struct iss { int name; };                                               /* the whole input text: a name id (>= 1), NAME_NULL for "-", or 0 = some other text */
#define NAME_NULL (-1)
#define VMAP_END ((size_t)-1)
#define NAME_TOKEN(n) (1000L + (n))
static inline size_t vmap_size(const struct vmap* m) { return m->n; }
static inline size_t vmap_find(const struct vmap* m, unsigned k) { size_t r = VMAP_END; for (size_t i = 0; i < VCAP; i++) { if (i < m->n && m->key[i] == k) r = i; } return r; }
static inline int vmap_name_at(const struct vmap* m, size_t i) { __CPROVER_assert(i < m->n && i < VCAP, "[C20] valid map iterator"); return m->name[i < VCAP ? i : 0]; }
static inline unsigned vmap_key_at(const struct vmap* m, size_t i) { __CPROVER_assert(i < m->n && i < VCAP, "[C20] valid map iterator"); return m->key[i < VCAP ? i : 0]; }
static inline unsigned NDT_getReplacement(const struct NDT* t) { return t->m_replacement; }
static inline _Bool VLF_isIgnored(const struct VLF* f) { return f->m_dataType->ignored; }
/* raw value codec of the base type (unit number): stubs */
int g_raw_result; unsigned g_raw_value; unsigned g_written; unsigned g_write_calls; int g_write_result;
static inline result_t NDT_readRawValue(const struct NDT* t, size_t offset, size_t length, const SymbolString input, unsigned* value) { if (g_raw_result == RESULT_OK) *value = g_raw_value; return (result_t)g_raw_result; }
static inline result_t NDT_writeRawValue(const struct NDT* t, unsigned value, size_t offset, size_t length, SymbolString* output, size_t* used) { g_written = value; g_write_calls = g_write_calls + 1; return (result_t)g_write_result; }
/* the input text and its reading by strtoul: ghost */
char g_text[4]; size_t g_consumed; unsigned long g_strtoul_result;
static inline int env_input_name(const struct iss* in) { return in->name; }
static inline const char* env_input_cstr(const struct iss* in) { return g_text; }
static inline unsigned long env_strtoul(const char* s, char** end, int base) { __CPROVER_assert(base == 10 && s == g_text, "number texts are read in base 10"); *end = (char*)s + g_consumed; return g_strtoul_result; }
/* output tokens (R11) */
#define TCAP 6
enum tokkind { TK_STR = 1, TK_CHAR, TK_NUM };
struct tokout { int kind[TCAP]; long val[TCAP]; size_t n; int cur_width; _Bool is_dec; };
static inline void tok_add(struct tokout* o, int kind, long v) { __CPROVER_assert(o->n < TCAP, "model capacity: tokens"); if (o->n < TCAP) { o->kind[o->n] = kind; o->val[o->n] = v; o->n = o->n + 1; } }
static inline void out_str(struct tokout* o, const char* s) { tok_add(o, TK_STR, (long)(unsigned char)s[0]); }
static inline void out_char(struct tokout* o, char c) { tok_add(o, TK_CHAR, (unsigned char)c); }
static inline void out_dec(struct tokout* o) { o->is_dec = 1; }
static inline void out_setw(struct tokout* o, int w) { o->cur_width = w; }
static inline void out_num(struct tokout* o, long v) {
  if (v < 1000) { __CPROVER_assert(o->is_dec && o->cur_width == 0, "[C12] a raw value is printed in decimal without padding whatever was printed before"); }
  tok_add(o, TK_NUM, v);
}
#define OUT_NUM(o, x) out_num(o, (long)(x))
#include "gen_protos.h"
#include "gen_funcs.inc"

struct vmap nondet_vmap(void); SymbolString nondet_SS(void);
static inline void setup(struct VLF* f, struct NDT* t) {
  f->m_values = nondet_vmap(); f->m_dataType = t; f->m_length = 1;
  __CPROVER_assume(f->m_values.n <= VCAP);
  for (int i = 0; i < VCAP; i++) { __CPROVER_assume(f->m_values.name[i] >= 1 && f->m_values.name[i] < 100 && f->m_values.key[i] < 900); if (i > 0 && (size_t)i < f->m_values.n) __CPROVER_assume(f->m_values.key[i - 1] < f->m_values.key[i]); }
}
void h_read(void) {
  struct VLF f; struct NDT t; SymbolString in = nondet_SS(); struct tokout o; unsigned fmt = nondet_uint();
  setup(&f, &t); t.m_replacement = nondet_uint(); __CPROVER_assume(t.m_replacement < 900);
  g_raw_result = nondet_int(); g_raw_value = nondet_uint(); __CPROVER_assume(g_raw_result <= 1 && g_raw_result >= -30 && g_raw_value < 900);
  o.n = 0; o.cur_width = nondet_int(); o.is_dec = nondet_bool();
  __CPROVER_assume((fmt & ~(unsigned)(OF_JSON | OF_NUMERIC | OF_VALUENAME | OF_NAMES)) == 0 && in.m_data.n <= SS_CAP);
  result_t r = VLF_readSymbols(&f, &in, 0, fmt, &o);
  size_t idx = vmap_find(&f.m_values, g_raw_value);
  if (g_raw_result != RESULT_OK) { __CPROVER_assert(r == g_raw_result && o.n == 0, "[C05] an undecodable raw pattern is rejected with the error of the base type"); }
  else if (idx != VMAP_END && !(fmt & (OF_JSON | OF_NUMERIC | OF_VALUENAME))) {
    __CPROVER_assert(r == RESULT_OK && o.n == 1 && o.kind[0] == TK_NUM && o.val[0] == NAME_TOKEN(f.m_values.name[idx]), "[C05] a listed value is shown as its name");
    CANARY("name");
  } else if (idx != VMAP_END && (fmt & OF_NUMERIC)) {
    __CPROVER_assert(r == RESULT_OK && o.n == 1 && o.kind[0] == TK_NUM && o.val[0] == (long)g_raw_value, "[C05] in numeric format a listed value is shown as its number");
  } else if (idx == VMAP_END && g_raw_value == t.m_replacement) {
    __CPROVER_assert(r == RESULT_OK && o.n == 1 && o.kind[0] == TK_STR && o.val[0] == ((fmt & OF_JSON) ? (long)'n' : (long)'-'), "[C05] the replacement pattern is shown as the null value");
    CANARY("null");
  } else if (idx == VMAP_END) {
    __CPROVER_assert(r == RESULT_OK && o.n == 1 && o.kind[0] == TK_NUM && o.val[0] == (long)g_raw_value, "[C05] a value without name is shown as its number");
    CANARY("unlisted");
  }
}
void h_write(void) {
  struct VLF f; struct NDT t; SymbolString out = nondet_SS(); struct iss in; size_t used;
  setup(&f, &t); t.m_replacement = nondet_uint(); t.ignored = nondet_bool(); in.name = nondet_int();
  g_write_calls = 0; g_write_result = nondet_int(); g_consumed = nondet_size(); g_strtoul_result = nondet_ulong();
  for (int i = 0; i < 4; i++) g_text[i] = nondet_char();
  __CPROVER_assume(g_text[3] == 0 && g_consumed <= 3 && in.name >= NAME_NULL && in.name < 100 && out.m_data.n <= SS_CAP);
  /* (a name of the list may itself read as a number: names are looked up first) */
  /* strtoul: nothing consumed => 0 */
  __CPROVER_assume(g_consumed > 0 || g_strtoul_result == 0);
  result_t r = VLF_writeSymbols(&f, 0, &in, &out, &used);
  size_t byname = VMAP_END;
  for (size_t i = VCAP; i-- > 0; ) { if (i < f.m_values.n && f.m_values.name[i] == in.name && in.name >= 1) byname = i; }
  if (t.ignored || in.name == NAME_NULL) {
    __CPROVER_assert(g_write_calls == 1 && g_written == t.m_replacement && r == g_write_result, "[C06] the null value (and an ignored field) is encoded as the replacement pattern");
    CANARY("null");
  } else if (byname != VMAP_END) {
    __CPROVER_assert(g_write_calls == 1 && g_written == f.m_values.key[byname] && r == g_write_result, "[C06] a name of the list is encoded as its value");
    CANARY("by name");
  } else {
    _Bool number_ok = g_consumed > 0 && (g_text[g_consumed] == 0 || g_text[g_consumed] == '.');
    _Bool listed = number_ok && g_strtoul_result <= 0xfffffffful && vmap_find(&f.m_values, (unsigned)g_strtoul_result) != VMAP_END;
    if (listed) { __CPROVER_assert(g_write_calls == 1 && g_written == (unsigned)g_strtoul_result && r == g_write_result, "[C06,C07] a number text that is a listed value is encoded as that value"); CANARY("by number"); }
    else {
      __CPROVER_assert(g_write_calls == 0 && r < 0, "[C07] a name or number that is not in the value list (also a number beyond 32 bit that only matches after truncation) is rejected and nothing is written");
      if (number_ok) { CANARY("number not listed"); }
    }
  }
}
