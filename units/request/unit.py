REQ_CPP = 'src/ebusd/request.cpp'


def _replay(run, inputs, rp, repo, verif):
    import replay
    exe = replay.build('request', ['src/ebusd/request.cpp', 'src/lib/utils/log.cpp', 'src/lib/utils/clock.cpp', 'src/lib/utils/thread.cpp'], repo, verif)
    return replay.run(exe, [run['id']])


UNIT = dict(
    replay=_replay,
    trusted=['std::string is a bounded value model (VSTR_CAP per run, stated as bound); sscanf is a stub that REQUIRES its format to be the literal "%1x%1x" and reads two hex digits from the input pointer'],
    cfg=dict(
        type_map={'string': 'vstr'},
        members={'m_request', 'm_isHttp', 'm_mode'},
        methods={'append': 'vstr_append', 'find': [(r'.', 'vstr_find_any')], 'rfind': 'vstr_rfind_cstr6', 'resize': 'vstr_resize', 'erase': 'vstr_erase', 'replace': 'vstr_replace_fill', 'length': 'vstr_length', 'c_str': 'vstr_c_str'},
        index=[(r'^m_request$', 'vstr_ref')],
        ref_returns=['vstr_ref'],
        text_subs=[(r'vstr::npos', 'VSTR_NPOS'), (r'vstr_append\(&self->m_request, add\)', 'vstr_append(&self->m_request, &add)'), (r'vstr add = request;', 'vstr add = vstr_from_cstr(request);'),
                   (r'vstr_find_any\(&self->m_request, self->m_isHttp \? "\\n\\n" : "\\n"\)', lambda m: 'vstr_find_cstr(&self->m_request, self->m_isHttp ? NLNL : NL, 0)'),
                   (r'vstr_find_any\(&self->m_request, "\\n"\)', lambda m: 'vstr_find_cstr(&self->m_request, NL, 0)'),
                   (r"vstr_find_any\(&self->m_request, '%', pos\)", "vstr_find_char(&self->m_request, '%', pos)"),
                   (r'\bsscanf\(', 'env_sscanf('), (r'self->m_mode\.listenMode != lm_none', 'self->m_listening')],
    ),
    functions=[
        dict(file=REQ_CPP, name='RequestImpl::split', cname='Request_split', self='struct Request', params_c=['struct svec* args'],
             pre_subs=[(r'string token, previous;', 'string token = vstr_new(), previous = vstr_new();', 1),
                       (r'istringstream stream\(m_request\);', 'struct sstream stream = ss_open(&m_request);', 1),
                       (r'getline\(stream, token, delim\)', 'ss_getline(&stream, &token, delim)', 1),
                       (r'args->pop_back\(\);', 'svec_pop_back(args);', 1), (r'args->push_back\(token\);', 'svec_push_back(args, &token);', 1),
                       (r'args->size\(\)', 'svec_size(args)', 1),
                       (r'token = previous \+ " " \+ token;', "token = vstr_cat3(&previous, ' ', &token);", 1),
                       (r'token\[token\.length\(\)-1\]', 'vstr_at(&token, vstr_length(&token)-1)', 2), (r'token\[0\]', 'vstr_at(&token, 0)', 3)]),
        dict(file=REQ_CPP, name='RequestImpl::add', cname='Request_add', self='struct Request',
             pre_subs=[(r'add\.erase\(remove\(add\.begin\(\), add\.end\(\), \'\\r\'\), add\.end\(\)\);', "vstr_remove_char(&add, '\\r');", 1)]),
    ],
    runs=[],
)


def R(id, entry, enforce=None, replace=(), loops=False, props=('C18', 'C20'), **kw):
    d = dict(id=id, entry=entry, enforce=enforce, replace=list(replace), loops=loops, props=list(props))
    d.update(kw)
    UNIT['runs'].append(d)

R('http_decode', 'h_http_decode', None, unwind=16, defines=['VSTR_CAP=14'], cost=60, timeout=1500,
  bounded='request text up to 14 characters (string model capacity)')
R('split_tcp', 'h_split_tcp', None, unwind=12, defines=['VSTR_CAP=9'], cost=60, timeout=1500,
  bounded='command lines up to 9 characters (string model capacity), full character set')
R('http_line', 'h_http_line', None, unwind=16, defines=['VSTR_CAP=14'], cost=60, timeout=1500,
  bounded='request line up to 3 characters plus the HTTP suffix, two chunks (string model capacity 14)')
R('tcp_line', 'h_tcp_line', None, unwind=16, defines=['VSTR_CAP=8'], cost=30, timeout=1500,
  bounded='command lines up to 4 characters (string model capacity 8)')
