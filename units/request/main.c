/* unit request: HTTP request line extraction and percent decoding in RequestImpl::add (C18, C20).  Back end B2, BOUNDED string length. */
#include "vbase.h"
#include "vstr.h"
#define NL "\n"
#define NLNL "\n\n"
struct Request { vstr m_request; _Bool m_isHttp; _Bool m_listening; };
unsigned g_sscanf_calls;
/* sscanf(input, format, &a, &b): the format has to be the literal "%1x%1x" (never request data); reads two single hex digits */
static inline int spec_hex(char c) { return (c >= '0' && c <= '9') ? c - '0' : (c >= 'a' && c <= 'f') ? c - 'a' + 10 : (c >= 'A' && c <= 'F') ? c - 'A' + 10 : -1; }
static inline int env_sscanf(const char* input, const char* format, unsigned* a, unsigned* b) {
  g_sscanf_calls = g_sscanf_calls + 1;
  __CPROVER_assert(format[0] == '%' && format[1] == '1' && format[2] == 'x' && format[3] == '%' && format[4] == '1' && format[5] == 'x' && format[6] == 0,
                   "[C18,C20] the sscanf format is the literal \"%1x%1x\" and never text from the request");
  if (!(format[0] == '%' && format[1] == '1' && format[2] == 'x' && format[3] == '%' && format[4] == '1' && format[5] == 'x' && format[6] == 0)) return nondet_int();
  int h1 = spec_hex(input[0]); if (h1 < 0) return input[0] == 0 ? -1 : 0;
  *a = (unsigned)h1;
  int h2 = spec_hex(input[1]); if (h2 < 0) return 1;
  *b = (unsigned)h2;
  return 2;
}
/* ---- models for RequestImpl::split: istringstream + getline(delim), vector<string> ---- */
#define ACAP 6
struct svec { vstr e[ACAP]; size_t n; };
struct sstream { vstr s; size_t pos; };
static inline vstr vstr_new(void) { vstr r; r.n = 0; for (size_t i = 0; i <= VSTR_CAP; i++) r.d[i] = 0; return r; }
static inline struct sstream ss_open(const vstr* s) { struct sstream r; r.s = *s; r.pos = 0; return r; }
/* std::getline(stream, token, delim): fails when nothing is left; else extracts up to (and discards) the delimiter or up to the end */
static inline _Bool ss_getline(struct sstream* st, vstr* tok, char delim) {
  if (st->pos >= st->s.n) return 0;
  vstr t = vstr_new(); _Bool done = 0; size_t p = st->pos;
  for (size_t i = 0; i < VSTR_CAP; i++) {
    if (!done && i >= st->pos && i < st->s.n) {
      if (st->s.d[i] == delim) { done = 1; p = i + 1; } else { t.d[t.n] = st->s.d[i]; t.n = t.n + 1; p = i + 1; }
    }
  }
  st->pos = p; *tok = t;
  return 1;
}
static inline void svec_pop_back(struct svec* v) { __CPROVER_assert(v->n > 0, "[C20] pop_back() on a non-empty vector"); if (v->n > 0) v->n = v->n - 1; }
static inline void svec_push_back(struct svec* v, const vstr* s) { __CPROVER_assert(v->n < ACAP, "model capacity: more arguments than ACAP"); if (v->n < ACAP) { v->e[v->n] = *s; v->n = v->n + 1; } }
static inline size_t svec_size(const struct svec* v) { return v->n; }
static inline vstr vstr_cat3(const vstr* a, char c, const vstr* b) {
  vstr r = *a;
  __CPROVER_assert(a->n + 1 + b->n <= VSTR_CAP, "model capacity: concatenation beyond VSTR_CAP");
  if (r.n < VSTR_CAP) { r.d[r.n] = c; r.n = r.n + 1; r.d[r.n] = 0; }
  vstr_append(&r, b);
  return r;
}
#include "gen_protos.h"
#include "gen_funcs.inc"

/* reference: decode every %XY (two hex digits) exactly once, left to right; stop at the first '%' not followed by two hex digits */
static inline vstr spec_decode_once(const vstr* in) {
  vstr out; out.n = 0; size_t i = 0; _Bool stop = 0;
  for (size_t k = 0; k < VSTR_CAP; k++) {
    if (i < in->n) {
      if (!stop && in->d[i] == '%' && i + 2 < in->n + 0 + 1 && i + 2 <= in->n - 0 && spec_hex(in->d[i + 1]) >= 0 && spec_hex(in->d[i + 2 <= VSTR_CAP ? i + 2 : 0]) >= 0 && i + 2 < in->n + 1 && i + 3 <= in->n) {
        out.d[out.n] = (char)((spec_hex(in->d[i + 1]) << 4) | spec_hex(in->d[i + 2])); out.n = out.n + 1; i = i + 3;
      } else {
        if (in->d[i] == '%') stop = 1;
        out.d[out.n] = in->d[i]; out.n = out.n + 1; i = i + 1;
      }
    }
  }
  for (size_t k = 0; k <= VSTR_CAP; k++) { if (k >= out.n) out.d[k] = 0; }
  return out;
}
vstr nondet_vstr(void);
void h_http_decode(void) {
  struct Request rq; vstr uri = nondet_vstr(); g_sscanf_calls = 0;
  /* a complete HTTP request whose first line is "<uri>" (the " HTTP/x" suffix and header lines are handled before decoding) */
  __CPROVER_assume(vstr_valid(&uri) && uri.n + 2 <= VSTR_CAP);
  for (size_t k = 0; k < VSTR_CAP; k++) { if (k < uri.n) __CPROVER_assume(uri.d[k] != '\n' && uri.d[k] != '\r' && uri.d[k] != 0); }
  rq.m_request = uri; rq.m_request.d[uri.n] = '\n'; rq.m_request.d[uri.n + 1] = '\n'; rq.m_request.n = uri.n + 2;
  for (size_t k = 0; k <= VSTR_CAP; k++) { if (k >= rq.m_request.n) rq.m_request.d[k] = 0; }
  rq.m_isHttp = 1; rq.m_listening = 0;
  __CPROVER_assume(vstr_rfind_cstr6(&uri, " HTTP/") == VSTR_NPOS);
  _Bool r = Request_add(&rq, NULL);
  vstr expect = spec_decode_once(&uri);
  __CPROVER_assert(r, "[C18] a complete HTTP request is accepted");
  __CPROVER_assert(rq.m_request.n == expect.n, "[C18] every percent escape of the URI is decoded exactly once (length)");
  __CPROVER_assert(__CPROVER_forall { size_t j; (j < VSTR_CAP) ==> (j < expect.n ==> rq.m_request.d[j] == expect.d[j]) }, "[C18] every percent escape of the URI is decoded exactly once (content)");
  if (g_sscanf_calls >= 2) { CANARY("two escapes"); }
  if (expect.n + 4 <= uri.n) { CANARY("two escapes decoded"); }
}

/* ---- TCP command line: reference tokenizer at character level (from the property statement): blanks outside quotes separate (repeated
   blanks once); a token starting with a quote character q extends to the first following q that ends a token (is followed by a blank or
   the end of the line); the quotes themselves are removed ---- */
static inline _Bool vstr_same(const vstr* a, const vstr* b) {
  if (a->n != b->n) return 0;
  _Bool eq = 1;
  for (size_t i = 0; i < VSTR_CAP; i++) { if (i < a->n && a->d[i] != b->d[i]) eq = 0; }
  return eq;
}
static inline struct svec spec_split(const vstr* s, _Bool* well_formed) {
  struct svec out; out.n = 0; size_t i = 0; *well_formed = 1;
  for (size_t it = 0; it <= VSTR_CAP; it++) {
    if (i < s->n) {
      if (s->d[i] == ' ') { i = i + 1; }
      else {
        vstr a = vstr_new(); size_t end = s->n; _Bool found = 0;
        if (s->d[i] == '"' || s->d[i] == '\'') {
          char q = s->d[i];
          for (size_t k = 0; k < VSTR_CAP; k++) { if (!found && k > i && k < s->n && s->d[k] == q && (k + 1 == s->n || s->d[k + 1] == ' ')) { found = 1; end = k; } }
          if (!found) *well_formed = 0;      /* unterminated quote: not specified */
          for (size_t k = 0; k < VSTR_CAP; k++) { if (k > i && k < end) { a.d[a.n] = s->d[k]; a.n = a.n + 1; } }
          i = end + 1;
        } else {
          for (size_t k = 0; k < VSTR_CAP; k++) { if (!found && k > i && k < s->n && s->d[k] == ' ') { found = 1; end = k; } }
          for (size_t k = 0; k < VSTR_CAP; k++) { if (k >= i && k < end) { a.d[a.n] = s->d[k]; a.n = a.n + 1; } }
          i = end;
        }
        if (out.n < ACAP) { out.e[out.n] = a; out.n = out.n + 1; }
      }
    }
  }
  return out;
}
void h_split_tcp(void) {
  struct Request rq; vstr line = nondet_vstr(); struct svec args; args.n = 0;
  __CPROVER_assume(vstr_valid(&line));
  for (size_t k = 0; k <= VSTR_CAP; k++) { if (k < line.n) __CPROVER_assume(line.d[k] != '\n' && line.d[k] != '\r' && line.d[k] != 0); else __CPROVER_assume(line.d[k] == 0); }
  rq.m_request = line; rq.m_isHttp = 0; rq.m_listening = 0;
  _Bool wf; struct svec expect = spec_split(&line, &wf);
  __CPROVER_assume(wf);
  Request_split(&rq, &args);
  __CPROVER_assert(args.n == expect.n, "[C18] a command line is split into the arguments the client wrote (count: blanks outside quotes separate once, quoted tokens are one argument)");
  size_t w = nondet_size(); __CPROVER_assume(w < ACAP);
  if (w < expect.n && w < args.n) { __CPROVER_assert(vstr_same(&args.e[w], &expect.e[w]), "[C18] a command line is split into the arguments the client wrote (content of every argument, quotes removed, blanks inside quotes kept)"); }
  if (expect.n >= 2 && expect.e[1].n >= 3 && line.d[0] != '"' ) { CANARY("two arguments"); }
  if (expect.n == 1 && line.n >= 6 && line.d[0] == '"' && line.d[2] == ' ' && line.d[3] == ' ') { CANARY("quoted argument with two blanks"); }
}

/* ---- HTTP request accumulation and first line extraction: the request arrives in two chunks with CR LF line ends; it is complete with the empty line;
   the request text handed on is the first line without the " HTTP/x" suffix; header lines never become part of it ---- */
static inline void put(vstr* s, char c) { if (s->n < VSTR_CAP) { s->d[s->n] = c; s->n = s->n + 1; s->d[s->n] = 0; } }
void h_http_line(void) {
  struct Request rq; rq.m_request = vstr_new(); rq.m_isHttp = 1; rq.m_listening = nondet_bool(); g_sscanf_calls = 0;
  vstr uri = nondet_vstr(); __CPROVER_assume(vstr_valid(&uri) && uri.n <= 3);
  for (size_t k = 0; k <= VSTR_CAP; k++) { if (k < uri.n) __CPROVER_assume(uri.d[k] != '\n' && uri.d[k] != '\r' && uri.d[k] != 0 && uri.d[k] != '%'); else __CPROVER_assume(uri.d[k] == 0); }
  char v = nondet_char(); __CPROVER_assume(v != '\n' && v != '\r' && v != 0);
  _Bool complete = nondet_bool(), with_suffix = nondet_bool();
  /* first chunk: "<uri> HTTP/<v>\r\n", second chunk: "\r\n" (complete) or a header character (incomplete) */
  char c1[VSTR_CAP + 1]; size_t n1 = 0;
  for (size_t k = 0; k < 3; k++) { if (k < uri.n) { c1[n1] = uri.d[k]; n1 = n1 + 1; } }
  if (with_suffix) { c1[n1] = ' '; c1[n1 + 1] = 'H'; c1[n1 + 2] = 'T'; c1[n1 + 3] = 'T'; c1[n1 + 4] = 'P'; c1[n1 + 5] = '/'; c1[n1 + 6] = v; n1 = n1 + 7; }
  c1[n1] = '\r'; c1[n1 + 1] = '\n'; c1[n1 + 2] = 0;
  _Bool r1 = Request_add(&rq, c1);
  __CPROVER_assert(!r1 || (rq.m_listening && 0), "[C18] an HTTP request is not complete before the empty line");
  char c2[3]; if (complete) { c2[0] = '\r'; c2[1] = '\n'; c2[2] = 0; } else { c2[0] = 'h'; c2[1] = 0; }
  _Bool r2 = Request_add(&rq, c2);
  __CPROVER_assert(r2 == complete, "[C18] an HTTP request is complete exactly with the empty line that ends the header");
  if (complete) {
    __CPROVER_assert(rq.m_request.n == uri.n, "[C18] the request text of an HTTP request is its first line without the HTTP version suffix (length)");
    size_t j = nondet_size(); __CPROVER_assume(j < 3);
    if (j < uri.n) { __CPROVER_assert(rq.m_request.d[j] == uri.d[j], "[C18] the request text of an HTTP request is its first line without the HTTP version suffix (content)"); }
    if (uri.n == 3 && with_suffix) { CANARY("GET line with suffix"); }
  } else { CANARY("incomplete request"); }
}

/* ---- TCP line accumulation: a command is complete with its line end, which is removed (CR dropped) ---- */
void h_tcp_line(void) {
  struct Request rq; rq.m_request = vstr_new(); rq.m_isHttp = 0; rq.m_listening = nondet_bool();
  vstr cmd = nondet_vstr(); __CPROVER_assume(vstr_valid(&cmd) && cmd.n <= 4);
  for (size_t k = 0; k <= VSTR_CAP; k++) { if (k < cmd.n) __CPROVER_assume(cmd.d[k] != '\n' && cmd.d[k] != '\r' && cmd.d[k] != 0); else __CPROVER_assume(cmd.d[k] == 0); }
  _Bool crlf = nondet_bool(), complete = nondet_bool();
  char c1[VSTR_CAP + 1]; size_t n1 = 0;
  for (size_t k = 0; k < 4; k++) { if (k < cmd.n) { c1[n1] = cmd.d[k]; n1 = n1 + 1; } }
  if (complete) { if (crlf) { c1[n1] = '\r'; n1 = n1 + 1; } c1[n1] = '\n'; n1 = n1 + 1; }
  c1[n1] = 0;
  _Bool r = Request_add(&rq, c1);
  if (complete) {
    __CPROVER_assert(r, "[C18] a command line is complete with its line end");
    __CPROVER_assert(rq.m_request.n == cmd.n, "[C18] the command handed on is the line without its line end (length)");
    size_t j = nondet_size(); __CPROVER_assume(j < 4);
    if (j < cmd.n) { __CPROVER_assert(rq.m_request.d[j] == cmd.d[j], "[C18] the command handed on is the line without its line end (content)"); }
    if (cmd.n == 4 && crlf) { CANARY("command with CR LF"); }
  } else {
    __CPROVER_assert(r == (cmd.n == 0 && rq.m_listening), "[C18] without line end a command is not complete (an empty request of a listening client is a poll for updates)");
    CANARY("incomplete command");
  }
}
