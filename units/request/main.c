/* unit request: HTTP request line extraction and percent decoding in RequestImpl::add (C18, C20).  Back end B2, BOUNDED string length. */
#include "vbase.h"
#include "vstr.h"
#define NL "\n"
#define NLNL "\n\n"
struct Request { vstr m_request; _Bool m_isHttp; _Bool m_listening; };
unsigned g_sscanf_calls;
/* sscanf(input, format, &a, &b): the format has to be the literal "%1x%1x" (never request data); reads two single hex digits */
static inline int spec_hex(char c) { return (c >= '0' && c <= '9') ? c - '0' : (c >= 'a' && c <= 'f') ? c - 'a' + 10 : (c >= 'A' && c <= 'F') ? c - 'A' + 10 : -1; }
static inline int env_sscanf(const char* input, const char* format, unsigned* a, unsigned* b) {
  g_sscanf_calls = g_sscanf_calls + 1;
  __CPROVER_assert(format[0] == '%' && format[1] == '1' && format[2] == 'x' && format[3] == '%' && format[4] == '1' && format[5] == 'x' && format[6] == 0,
                   "[C18,C20] the sscanf format is the literal \"%1x%1x\" and never text from the request");
  if (!(format[0] == '%' && format[1] == '1' && format[2] == 'x' && format[3] == '%' && format[4] == '1' && format[5] == 'x' && format[6] == 0)) return nondet_int();
  int h1 = spec_hex(input[0]); if (h1 < 0) return input[0] == 0 ? -1 : 0;
  *a = (unsigned)h1;
  int h2 = spec_hex(input[1]); if (h2 < 0) return 1;
  *b = (unsigned)h2;
  return 2;
}
#include "gen_protos.h"
#include "gen_funcs.inc"

/* reference: decode every %XY (two hex digits) exactly once, left to right; stop at the first '%' not followed by two hex digits */
static inline vstr spec_decode_once(const vstr* in) {
  vstr out; out.n = 0; size_t i = 0; _Bool stop = 0;
  for (size_t k = 0; k < VSTR_CAP; k++) {
    if (i < in->n) {
      if (!stop && in->d[i] == '%' && i + 2 < in->n + 0 + 1 && i + 2 <= in->n - 0 && spec_hex(in->d[i + 1]) >= 0 && spec_hex(in->d[i + 2 <= VSTR_CAP ? i + 2 : 0]) >= 0 && i + 2 < in->n + 1 && i + 3 <= in->n) {
        out.d[out.n] = (char)((spec_hex(in->d[i + 1]) << 4) | spec_hex(in->d[i + 2])); out.n = out.n + 1; i = i + 3;
      } else {
        if (in->d[i] == '%') stop = 1;
        out.d[out.n] = in->d[i]; out.n = out.n + 1; i = i + 1;
      }
    }
  }
  for (size_t k = 0; k <= VSTR_CAP; k++) { if (k >= out.n) out.d[k] = 0; }
  return out;
}
vstr nondet_vstr(void);
void h_http_decode(void) {
  struct Request rq; vstr uri = nondet_vstr(); g_sscanf_calls = 0;
  /* a complete HTTP request whose first line is "<uri>" (the " HTTP/x" suffix and header lines are handled before decoding) */
  __CPROVER_assume(vstr_valid(&uri) && uri.n + 2 <= VSTR_CAP);
  for (size_t k = 0; k < VSTR_CAP; k++) { if (k < uri.n) __CPROVER_assume(uri.d[k] != '\n' && uri.d[k] != '\r' && uri.d[k] != 0); }
  rq.m_request = uri; rq.m_request.d[uri.n] = '\n'; rq.m_request.d[uri.n + 1] = '\n'; rq.m_request.n = uri.n + 2;
  for (size_t k = 0; k <= VSTR_CAP; k++) { if (k >= rq.m_request.n) rq.m_request.d[k] = 0; }
  rq.m_isHttp = 1; rq.m_listening = 0;
  __CPROVER_assume(vstr_rfind_cstr6(&uri, " HTTP/") == VSTR_NPOS);
  _Bool r = Request_add(&rq, NULL);
  vstr expect = spec_decode_once(&uri);
  __CPROVER_assert(r, "[C18] a complete HTTP request is accepted");
  __CPROVER_assert(rq.m_request.n == expect.n, "[C18] every percent escape of the URI is decoded exactly once (length)");
  __CPROVER_assert(__CPROVER_forall { size_t j; (j < VSTR_CAP) ==> (j < expect.n ==> rq.m_request.d[j] == expect.d[j]) }, "[C18] every percent escape of the URI is decoded exactly once (content)");
  if (g_sscanf_calls >= 2) { CANARY("two escapes"); }
  if (expect.n + 4 <= uri.n) { CANARY("two escapes decoded"); }
}
