/* unit level: access level matching Message::checkLevel (C16, C20).  Back end B2, BOUNDED string lengths. */
#include "vbase.h"
#include "vstr.h"
#include "gen_types.h"
#include "gen_protos.h"
#include "gen_funcs.inc"

/* reference: the level is one of the ';'-separated tokens of the list; an empty level is free for all; the list "*" grants everything */
static inline _Bool spec_token_member(const vstr* level, const vstr* list) {
  _Bool found = 0;
  for (size_t start = 0; start <= VSTR_CAP; start++) {
    if (start <= list->n && (start == 0 || list->d[start - 1] == ';')) {
      /* token starting at start */
      _Bool m = 1;
      for (size_t k = 0; k < VSTR_CAP; k++) { if (k < level->n && (start + k >= list->n || list->d[start + k <= VSTR_CAP ? start + k : 0] != level->d[k])) m = 0; }
      if (m && (start + level->n == list->n || (start + level->n < list->n && list->d[start + level->n <= VSTR_CAP ? start + level->n : 0] == ';'))) found = 1;
    }
  }
  return found;
}
vstr nondet_vstr(void);
void h_checkLevel(void) {
  vstr level = nondet_vstr(), list = nondet_vstr();
  __CPROVER_assume(vstr_valid(&level) && vstr_valid(&list));
  for (size_t k = 0; k < VSTR_CAP; k++) { if (k < level.n) __CPROVER_assume(level.d[k] != ';' && level.d[k] != 0); if (k < list.n) __CPROVER_assume(list.d[k] != 0); }
  _Bool r = Message_checkLevel(&level, &list);
  _Bool expect = level.n == 0 ? 1 : list.n == 0 ? 0 : (list.n == 1 && list.d[0] == '*') ? 1 : spec_token_member(&level, &list);
  __CPROVER_assert(r == expect, "[C16] access is granted iff the level is empty, the list is \"*\", or the level is exactly one of the ';'-separated tokens (no prefix/suffix/infix match)");
  if (r && level.n == 2 && list.n >= 5) { CANARY("token in the middle"); }
  if (!r && level.n >= 1 && list.n >= 3) { CANARY("denied"); }
}
