/* unit level: access level matching Message::checkLevel (C16, C20).  Back end B2, BOUNDED string lengths. */
#include "vbase.h"
#include "vstr.h"
#include "gen_types.h"
struct Message { vstr m_level; };
struct MessageMap { int dummy; };
struct Message g_found[3]; _Bool g_present[3]; unsigned g_lookups;
static inline _Bool env_circuit_empty(const vstr* c) { return c->n == 0; }
/* the map of messages by name: key 1 = circuit + name, key 2 = name only; some available message of that name, or none */
static inline struct Message* env_lookup(int key) { g_lookups = g_lookups + 1; __CPROVER_assert(key == 1 || key == 2, "lookup key"); return g_present[key] ? &g_found[key] : NULL; }
#include "gen_protos.h"
#include "gen_funcs.inc"

/* reference: the level is one of the ';'-separated tokens of the list; an empty level is free for all; the list "*" grants everything */
static inline _Bool spec_token_member(const vstr* level, const vstr* list) {
  _Bool found = 0;
  for (size_t start = 0; start <= VSTR_CAP; start++) {
    if (start <= list->n && (start == 0 || list->d[start - 1] == ';')) {
      /* token starting at start */
      _Bool m = 1;
      for (size_t k = 0; k < VSTR_CAP; k++) { if (k < level->n && (start + k >= list->n || list->d[start + k <= VSTR_CAP ? start + k : 0] != level->d[k])) m = 0; }
      if (m && (start + level->n == list->n || (start + level->n < list->n && list->d[start + level->n <= VSTR_CAP ? start + level->n : 0] == ';'))) found = 1;
    }
  }
  return found;
}
vstr nondet_vstr(void);
void h_checkLevel(void) {
  vstr level = nondet_vstr(), list = nondet_vstr();
  __CPROVER_assume(vstr_valid(&level) && vstr_valid(&list));
  for (size_t k = 0; k < VSTR_CAP; k++) { if (k < level.n) __CPROVER_assume(level.d[k] != ';' && level.d[k] != 0); if (k < list.n) __CPROVER_assume(list.d[k] != 0); }
  _Bool r = Message_checkLevel(&level, &list);
  _Bool expect = level.n == 0 ? 1 : list.n == 0 ? 0 : (list.n == 1 && list.d[0] == '*') ? 1 : spec_token_member(&level, &list);
  __CPROVER_assert(r == expect, "[C16] access is granted iff the level is empty, the list is \"*\", or the level is exactly one of the ';'-separated tokens (no prefix/suffix/infix match)");
  if (r && level.n == 2 && list.n >= 5) { CANARY("token in the middle"); }
  if (!r && level.n >= 1 && list.n >= 3) { CANARY("denied"); }
}

static inline _Bool spec_granted(const vstr* level, const vstr* list) {
  return level->n == 0 ? 1 : list->n == 0 ? 0 : (list->n == 1 && list->d[0] == '*') ? 1 : spec_token_member(level, list);
}
/* lookup by circuit and name on behalf of a client: a message is only handed out if the client's level list grants its level */
void h_find_by_name(void) {
  struct MessageMap mm; vstr circuit = nondet_vstr(), name = nondet_vstr(), levels = nondet_vstr();
  for (int k = 1; k <= 2; k++) { g_found[k].m_level = nondet_vstr(); g_present[k] = nondet_bool(); __CPROVER_assume(vstr_valid(&g_found[k].m_level));
    for (size_t j = 0; j < VSTR_CAP; j++) { if (j < g_found[k].m_level.n) __CPROVER_assume(g_found[k].m_level.d[j] != ';' && g_found[k].m_level.d[j] != 0); } }
  __CPROVER_assume(vstr_valid(&circuit) && vstr_valid(&name) && vstr_valid(&levels)); g_lookups = 0;
  for (size_t j = 0; j < VSTR_CAP; j++) { if (j < levels.n) __CPROVER_assume(levels.d[j] != 0); }
  struct Message* r = MM_find_by_name(&mm, &circuit, &name, &levels, nondet_bool(), nondet_bool());
  if (r != NULL) {
    __CPROVER_assert(r == &g_found[1] || (r == &g_found[2] && circuit.n == 0), "[C16] the message found is the one of that circuit and name (without circuit only if none was given)");
    __CPROVER_assert(spec_granted(&r->m_level, &levels), "[C16] a message is handed out by name only if the client's level list contains exactly its level (or is *, or the message has no level)");
    CANARY("found");
  }
  if (g_present[1] && spec_granted(&g_found[1].m_level, &levels)) { __CPROVER_assert(r == &g_found[1], "[C16] a message the client is granted is found"); }
  if (g_present[1] && !spec_granted(&g_found[1].m_level, &levels) && !(circuit.n == 0 && g_present[2])) { __CPROVER_assert(r == NULL, "[C16] a message of a level the client is not granted is not handed out"); CANARY("denied by level"); }
}
