/* unit level: access level matching Message::checkLevel (C16, C20).  Back end B2, BOUNDED string lengths. */
#include "vbase.h"
#include "vstr.h"
#include "gen_types.h"
typedef long time_t;
#ifndef KEYS_CAP
#define KEYS_CAP 2
#define BK_CAP 2
#endif
#define ALL_CAP (KEYS_CAP * BK_CAP)
#define SYN 0xaa
struct Message { vstr m_level; _Bool grant_incl, grant_excl; _Bool passive, write, available, circuit_part, circuit_full, name_part, name_full; unsigned char dst; time_t lastChange, lastUpdate; };
struct MessageMap { int dummy; };
/* findAll: all definitions of the name map; result list */
struct Message g_all[ALL_CAP];
struct bucket { struct Message* e[BK_CAP]; size_t n; _Bool dup; };   /* the definitions stored under one name key (never empty); dup: key of a multiply stored instance */
struct bucket g_keys[KEYS_CAP]; size_t g_keys_n;
struct msgout { struct Message* e[ALL_CAP]; size_t n; };
static inline void msgout_push(struct msgout* o, struct Message* m) { __CPROVER_assert(o->n < ALL_CAP, "[C16] a definition is reported at most once"); o->e[o->n] = m; o->n = o->n + 1; }
/* Message::hasLevel by its contract (discharged in run hasLevel): the verdict depends on the definition, the level list and includeEmpty only;
   a definition admitted without includeEmpty is admitted with it */
const vstr* g_levels_arg; unsigned g_level_checks;
static inline _Bool env_hasLevel(const struct Message* m, const vstr* levels, _Bool includeEmpty) {
  __CPROVER_assert(levels == g_levels_arg, "[C16] the level filter is evaluated with the level list of the client"); g_level_checks = g_level_checks + 1;
  return includeEmpty ? m->grant_incl : m->grant_excl; }
static inline _Bool env_given(const vstr* s) { return s->n != 0; }
static inline _Bool env_circuit_matches(const struct Message* m, _Bool complete) { return complete ? m->circuit_full : m->circuit_part; }
static inline _Bool env_name_matches(const struct Message* m, _Bool complete) { return complete ? m->name_full : m->name_part; }
static inline _Bool Msg_isPassive(const struct Message* m) { return m->passive; }
static inline _Bool Msg_isWrite(const struct Message* m) { return m->write; }
static inline _Bool Msg_isAvailable(const struct Message* m) { return m->available; }
static inline unsigned char Msg_getDstAddress(const struct Message* m) { return m->dst; }
static inline time_t Msg_getLastChangeTime(const struct Message* m) { return m->lastChange; }
static inline time_t Msg_getLastUpdateTime(const struct Message* m) { return m->lastUpdate; }
struct Message g_found[3]; _Bool g_present[3]; unsigned g_lookups;
static inline _Bool env_circuit_empty(const vstr* c) { return c->n == 0; }
/* the map of messages by name: key 1 = circuit + name, key 2 = name only; some available message of that name, or none */
static inline struct Message* env_lookup(int key) { g_lookups = g_lookups + 1; __CPROVER_assert(key == 1 || key == 2, "lookup key"); return g_present[key] ? &g_found[key] : NULL; }
#include "gen_protos.h"
#include "gen_funcs.inc"

/* reference: the level is one of the ';'-separated tokens of the list; an empty level is free for all; the list "*" grants everything */
static inline _Bool spec_token_member(const vstr* level, const vstr* list) {
  _Bool found = 0;
  for (size_t start = 0; start <= VSTR_CAP; start++) {
    if (start <= list->n && (start == 0 || list->d[start - 1] == ';')) {
      /* token starting at start */
      _Bool m = 1;
      for (size_t k = 0; k < VSTR_CAP; k++) { if (k < level->n && (start + k >= list->n || list->d[start + k <= VSTR_CAP ? start + k : 0] != level->d[k])) m = 0; }
      if (m && (start + level->n == list->n || (start + level->n < list->n && list->d[start + level->n <= VSTR_CAP ? start + level->n : 0] == ';'))) found = 1;
    }
  }
  return found;
}
vstr nondet_vstr(void);
void h_checkLevel(void) {
  vstr level = nondet_vstr(), list = nondet_vstr();
  __CPROVER_assume(vstr_valid(&level) && vstr_valid(&list));
  for (size_t k = 0; k < VSTR_CAP; k++) { if (k < level.n) __CPROVER_assume(level.d[k] != ';' && level.d[k] != 0); if (k < list.n) __CPROVER_assume(list.d[k] != 0); }
  _Bool r = Message_checkLevel(&level, &list);
  _Bool expect = level.n == 0 ? 1 : list.n == 0 ? 0 : (list.n == 1 && list.d[0] == '*') ? 1 : spec_token_member(&level, &list);
  __CPROVER_assert(r == expect, "[C16] access is granted iff the level is empty, the list is \"*\", or the level is exactly one of the ';'-separated tokens (no prefix/suffix/infix match)");
  if (r && level.n == 2 && list.n >= 5) { CANARY("token in the middle"); }
  if (!r && level.n >= 1 && list.n >= 3) { CANARY("denied"); }
}

static inline _Bool spec_granted(const vstr* level, const vstr* list) {
  return level->n == 0 ? 1 : list->n == 0 ? 0 : (list->n == 1 && list->d[0] == '*') ? 1 : spec_token_member(level, list);
}
/* lookup by circuit and name on behalf of a client: a message is only handed out if the client's level list grants its level */
void h_find_by_name(void) {
  struct MessageMap mm; vstr circuit = nondet_vstr(), name = nondet_vstr(), levels = nondet_vstr();
  for (int k = 1; k <= 2; k++) { g_found[k].m_level = nondet_vstr(); g_present[k] = nondet_bool(); __CPROVER_assume(vstr_valid(&g_found[k].m_level));
    for (size_t j = 0; j < VSTR_CAP; j++) { if (j < g_found[k].m_level.n) __CPROVER_assume(g_found[k].m_level.d[j] != ';' && g_found[k].m_level.d[j] != 0); } }
  __CPROVER_assume(vstr_valid(&circuit) && vstr_valid(&name) && vstr_valid(&levels)); g_lookups = 0;
  for (size_t j = 0; j < VSTR_CAP; j++) { if (j < levels.n) __CPROVER_assume(levels.d[j] != 0); }
  struct Message* r = MM_find_by_name(&mm, &circuit, &name, &levels, nondet_bool(), nondet_bool());
  if (r != NULL) {
    __CPROVER_assert(r == &g_found[1] || (r == &g_found[2] && circuit.n == 0), "[C16] the message found is the one of that circuit and name (without circuit only if none was given)");
    __CPROVER_assert(spec_granted(&r->m_level, &levels), "[C16] a message is handed out by name only if the client's level list contains exactly its level (or is *, or the message has no level)");
    CANARY("found");
  }
  if (g_present[1] && spec_granted(&g_found[1].m_level, &levels)) { __CPROVER_assert(r == &g_found[1], "[C16] a message the client is granted is found"); }
  if (g_present[1] && !spec_granted(&g_found[1].m_level, &levels) && !(circuit.n == 0 && g_present[2])) { __CPROVER_assert(r == NULL, "[C16] a message of a level the client is not granted is not handed out"); CANARY("denied by level"); }
}

/* listing on behalf of a client (find, HTTP /data, MQTT, KNX list building): a definition is listed iff every filter admits it; the level filter is
   the exact-token rule; a definition without level is listed when includeEmptyLevel is set or the client has no levels at all */
struct Message nondet_message(void);
void h_find_all(void) {
  struct MessageMap mm; vstr circuit = nondet_vstr(), name = nondet_vstr(), levels = nondet_vstr();
  __CPROVER_assume(vstr_valid(&circuit) && vstr_valid(&name) && vstr_valid(&levels));
  g_keys_n = nondet_size(); __CPROVER_assume(g_keys_n <= KEYS_CAP);
  for (size_t k = 0; k < KEYS_CAP; k++) { g_keys[k].n = nondet_size(); __CPROVER_assume(g_keys[k].n >= 1 && g_keys[k].n <= BK_CAP); g_keys[k].dup = nondet_bool();
    for (size_t j = 0; j < BK_CAP; j++) g_keys[k].e[j] = &g_all[k * BK_CAP + j]; }
  for (size_t k = 0; k < ALL_CAP; k++) { g_all[k] = nondet_message(); __CPROVER_assume(!g_all[k].grant_excl || g_all[k].grant_incl); }
  _Bool complete = nondet_bool(), wr = nondet_bool(), ww = nondet_bool(), wp = nondet_bool(), incl = nondet_bool(), avail = nondet_bool(), chg = nondet_bool();
  time_t since = nondet_long(), until = nondet_long(); __CPROVER_assume(since >= 0 && until >= 0);
  struct msgout out; out.n = 0; g_levels_arg = &levels; g_level_checks = 0;
  MM_findAll(&mm, &circuit, &name, &levels, complete, wr, ww, wp, incl, avail, since, until, chg, &out);
  size_t kk = nondet_size(), kj = nondet_size(); __CPROVER_assume(kk < g_keys_n && kj < g_keys[kk].n);
  const struct Message* m = g_keys[kk].e[kj];
  _Bool star = levels.n == 1 && levels.d[0] == '*';
  _Bool level_ok = star ? 1 : (incl ? m->grant_incl : m->grant_excl);
  _Bool circuit_ok = circuit.n == 0 || (complete ? m->circuit_full : m->circuit_part);
  _Bool name_ok = name.n == 0 || (complete ? m->name_full : m->name_part);
  _Bool dir_ok = m->passive ? wp : m->write ? ww : wr;
  time_t last = chg ? m->lastChange : m->lastUpdate;
  _Bool time_ok = (since == 0 && until == 0) || (m->dst != SYN && !(since != 0 && last < since) && !(until != 0 && last >= until));
  _Bool expect = !g_keys[kk].dup && level_ok && circuit_ok && name_ok && dir_ok && time_ok && (!avail || m->available);
  size_t cnt = 0; for (size_t j = 0; j < ALL_CAP; j++) { if (j < out.n && out.e[j] == m) cnt = cnt + 1; }
  __CPROVER_assert(level_ok || cnt == 0, "[C16] a definition of a level the client is not granted is never listed");
  __CPROVER_assert(cnt == (expect ? 1 : 0), "[C16] a definition is listed exactly once iff the level, circuit, name, direction, time and availability filters all admit it (whatever else is stored under the same name)");
  size_t a = nondet_size(), b = nondet_size();
  if (a < b && b < out.n) { __CPROVER_assert(out.e[a] < out.e[b], "[C16] the list keeps the order of the map"); }
  if (expect && !star && g_level_checks >= 2) { CANARY("listed by level"); }
  if (!level_ok && out.n == 1 && kj == 1 && out.e[0] == g_keys[kk].e[0]) { CANARY("first of a name listed, second denied"); }
}

/* Message::hasLevel = contract used by find_all */
void h_hasLevel(void) {
  struct Message m; vstr levels = nondet_vstr(); m.m_level = nondet_vstr(); _Bool incl = nondet_bool();
  __CPROVER_assume(vstr_valid(&levels) && vstr_valid(&m.m_level));
  for (size_t j = 0; j < VSTR_CAP; j++) { if (j < levels.n) __CPROVER_assume(levels.d[j] != 0); if (j < m.m_level.n) __CPROVER_assume(m.m_level.d[j] != ';' && m.m_level.d[j] != 0); }
  _Bool r = Message_hasLevel(&m, &levels, incl);
  _Bool expect = m.m_level.n == 0 ? (incl || levels.n == 0) : spec_granted(&m.m_level, &levels);
  __CPROVER_assert(r == expect, "[C16] a definition with a level is admitted iff the list is * or contains exactly that level; one without level is admitted when includeEmpty is set or the client has no levels");
  __CPROVER_assert(!(r && !incl) || Message_hasLevel(&m, &levels, 1), "[C16] includeEmpty only widens");
  if (r && m.m_level.n == 2 && levels.n == 5) { CANARY("granted by token"); }
  if (!r && m.m_level.n == 0) { CANARY("definition without level hidden"); }
}
