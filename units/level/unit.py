MSG_CPP = 'src/lib/ebus/message.cpp'

UNIT = dict(
    trusted=['std::string is a bounded value model (stated bound per run)'],
    defines=[('src/lib/ebus/filereader.h', ['VALUE_SEPARATOR'])],
    cfg=dict(
        type_map={'string': 'vstr'},
        methods={'empty': 'vstr_empty', 'length': 'vstr_length', 'find': 'vstr_find_str'},
        index=[(r'^checkLevels$', 'vstr_at')],
        defaults={'vstr_find_str': (3, ['0'])},
        text_subs=[(r'vstr::npos', 'VSTR_NPOS'), (r'\(\*checkLevels\) == "\*"', "vstr_eq_lit1(checkLevels, '*')"), (r'vstr_find_str\(checkLevels, \(\*level\)', 'vstr_find_str(checkLevels, level')],
    ),
    functions=[dict(file=MSG_CPP, name='Message::checkLevel', cname='Message_checkLevel', self=None)],
    runs=[],
)


def R(id, entry, enforce=None, replace=(), loops=False, props=('C16', 'C20'), **kw):
    d = dict(id=id, entry=entry, enforce=enforce, replace=list(replace), loops=loops, props=list(props))
    d.update(kw)
    UNIT['runs'].append(d)

R('checkLevel', 'h_checkLevel', None, unwind=12, defines=['VSTR_CAP=9'], cost=60, timeout=1500,
  bounded='level list up to 9 characters, level up to 9 characters (string model capacity)')
