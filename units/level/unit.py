MSG_CPP = 'src/lib/ebus/message.cpp'
MSG_H = 'src/lib/ebus/message.h'

# MessageMap::find(circuit, name, levels, isWrite, isPassive): the name key construction and the map lookup are abstracted (key 1 = with circuit,
# key 2 = without circuit); the loop, the "second try only without circuit" rule and the level gate stay as written
_FIND = [(r'string lcircuit = circuit;\s*FileReader::tolower\(&lcircuit\);\s*string lname = name;\s*FileReader::tolower\(&lname\);\s*string suffix = [^;]+;', '_Bool lcircuit_empty = env_circuit_empty(circuit);', 1),
         (r'string nameKey;', 'int nameKey = 0;', 1), (r'nameKey = lcircuit \+ suffix;', 'nameKey = 1;', 1), (r'nameKey = suffix;', 'nameKey = 2;', 1),
         (r'lcircuit\.empty\(\)', 'lcircuit_empty', 1),
         (r'const auto it = m_messagesByName\.find\(nameKey\);\s*if \(it != m_messagesByName\.end\(\)\) \{\s*Message\* message = getFirstAvailable\(it->second\);', '{\n      Message* message = env_lookup(nameKey);', 1)]

# MessageMap::findAll: the name map is an array of non-empty buckets (one per key, a flag marks the duplicate keys of multiply stored instances), lower-casing and the circuit/name comparison are opaque per-message verdicts; the level gate, the direction filters, the time
# window and the availability filter stay as written
_FINDALL = [(r'string lcircuit = circuit;\s*FileReader::tolower\(&lcircuit\);\s*string lname = name;\s*FileReader::tolower\(&lname\);\s*bool checkCircuit = lcircuit\.length\(\) > 0;',
             '_Bool checkCircuit = env_given(circuit);', 1),
            (r'bool checkName = lname\.length\(\) > 0;', '_Bool checkName = env_given(name);', 1),
            (r'levels != "\*"', "!vstr_eq_lit1(levels, '*')", 1),
            (r'for \(const auto& it : m_messagesByName\) \{', 'for (size_t ki = 0; ki < g_keys_n; ki++) {\n    const struct bucket* it = &g_keys[ki];', 1),
            (r'it\.first\[0\] == FIELD_SEPARATOR', 'it->dup', 1),
            (r'for \(const auto message : it\.second\) \{', 'for (size_t mi = 0; mi < it->n; mi++) {\n      Message* message = it->e[mi];', 1),
            (r'it\.second\.front\(\)', 'it->e[0]', (0, 4)), (r'it\.second\.(size|empty)\(\)', lambda m: 'it->n' if m.group(1) == 'size' else '(it->n == 0)', (0, 4)),
            (r'string check = message->getCircuit\(\);\s*FileReader::tolower\(&check\);\s*if \(completeMatch \? \(check != lcircuit\) : \(check\.find\(lcircuit\) == check\.npos\)\) \{',
             'if (!env_circuit_matches(message, completeMatch)) {', 1),
            (r'string check = message->getName\(\);\s*FileReader::tolower\(&check\);\s*if \(completeMatch \? \(check != lname\) : \(check\.find\(lname\) == check\.npos\)\) \{',
             'if (!env_name_matches(message, completeMatch)) {', 1)]

UNIT = dict(
    trusted=['std::string is a bounded value model (stated bound per run)'],
    defines=[('src/lib/ebus/filereader.h', ['VALUE_SEPARATOR'])],
    cfg=dict(
        type_map={'string': 'vstr'},
        methods={'empty': 'vstr_empty', 'length': 'vstr_length', 'find': 'vstr_find_str'},
        index=[(r'^checkLevels$', 'vstr_at')],
        defaults={'vstr_find_str': (3, ['0'])},
        text_subs=[(r'vstr::npos', 'VSTR_NPOS'), (r'\(\*checkLevels\) == "\*"', "vstr_eq_lit1(checkLevels, '*')"), (r'vstr_find_str\(checkLevels, \(\*level\)', 'vstr_find_str(checkLevels, level')],
    ),
    functions=[dict(file=MSG_CPP, name='Message::checkLevel', cname='Message_checkLevel', self=None),
               dict(file=MSG_H, inline_class='Message', name='hasLevel', cname='Message_hasLevel', self='struct Message',
                    cfg=dict(members={'m_level'}, static_calls={'checkLevel': 'Message_checkLevel'}, text_subs=[(r'checkLevel\(self->m_level, \(\*levels\)\)', 'Message_checkLevel(&self->m_level, levels)')])),
               dict(file=MSG_CPP, name='MessageMap::find', sig='const string& circuit, const string& name, const string& levels', cname='MM_find_by_name', self='struct MessageMap',
                    pre_subs=_FIND, cfg=dict(type_map={'string': 'vstr', 'Message': 'struct Message'}, methods={'hasLevel': 'Message_hasLevel'}, defaults={'Message_hasLevel': (3, ['true'])},
                             text_subs=[(r'env_circuit_empty\(\(\*circuit\)\)', 'env_circuit_empty(circuit)'), (r'Message_hasLevel\(message, \(\*levels\), true\)', 'Message_hasLevel(message, levels, true)')])),
               dict(file=MSG_CPP, name='MessageMap::findAll', cname='MM_findAll', self='struct MessageMap', ret='void', pre_subs=_FINDALL,
                    params_c=['const vstr* circuit', 'const vstr* name', 'const vstr* levels', '_Bool completeMatch', '_Bool withRead', '_Bool withWrite', '_Bool withPassive',
                              '_Bool includeEmptyLevel', '_Bool onlyAvailable', 'time_t since', 'time_t until', '_Bool changedSince', 'struct msgout* messages'],
                    cfg=dict(type_map={'string': 'vstr', 'Message': 'struct Message'},
                             methods={'hasLevel': 'env_hasLevel', 'isPassive': 'Msg_isPassive', 'isWrite': 'Msg_isWrite', 'getDstAddress': 'Msg_getDstAddress',
                                      'getLastChangeTime': 'Msg_getLastChangeTime', 'getLastUpdateTime': 'Msg_getLastUpdateTime', 'isAvailable': 'Msg_isAvailable', 'push_back': 'msgout_push'}))],
    runs=[],
)


def R(id, entry, enforce=None, replace=(), loops=False, props=('C16', 'C20'), **kw):
    d = dict(id=id, entry=entry, enforce=enforce, replace=list(replace), loops=loops, props=list(props))
    d.update(kw)
    UNIT['runs'].append(d)

R('checkLevel', 'h_checkLevel', None, unwind=12, defines=['VSTR_CAP=9'], cost=60, timeout=1500,
  bounded='level list up to 9 characters, level up to 9 characters (string model capacity)')
R('find_by_name', 'h_find_by_name', None, unwind=8, defines=['VSTR_CAP=5'], cost=60, timeout=1500,
  bounded='level list and level up to 5 characters (string model capacity)')
R('find_all', 'h_find_all', None, unwind=8, defines=['VSTR_CAP=4', 'KEYS_CAP=3', 'BK_CAP=2'], cost=30, timeout=1500,
  bounded='three keys with up to two definitions each in the name map; Message::hasLevel is used by its contract (run hasLevel)')
R('hasLevel', 'h_hasLevel', None, unwind=8, defines=['VSTR_CAP=5'], cost=60, timeout=1500,
  bounded='level list and level up to 5 characters (string model capacity)')
