/* unit number: NumberDataType raw decode/encode, range check, text parsing (C05, C06, C07, C10, C12, C20)
 * verified text: functions extracted from src/lib/ebus/datatype.cpp / datatype.h on every run */
#include <math.h>
#include "vbase.h"
#define VSTR_CAP 32
#include "vstr.h"
#include "vvec.h"
int verif_errno;
#undef errno
#define errno verif_errno
#ifndef ERANGE
#define ERANGE 34
#endif
#define string vstr
static inline _Bool vstr_eq_lit(const vstr* s, const char* lit) { return s->n == 1 && s->d[0] == lit[0] && lit[1] == 0; }  /* only used for NULL_VALUE "-" */

#include "gen_types.h"
#include "spec.h"

/* ---------- environment: C library number parsing as a ghost mathematical reading of the text (trusted contract) ---------- */
struct g_txt_t { _Bool any, neg, huge; unsigned __int128 mag; size_t consumed; } g_txt0, g_txt10;   /* readings of the text by strtol/strtoul with base 0 (C prefixes) and base 10 */
#define g_txt (*g_txtp)
struct g_dbl_t { _Bool any, erange; double value; size_t consumed; } g_dbl;               /* strtod */
unsigned g_strto_calls;
#define I128_2_63 (((unsigned __int128)1) << 63)
#define I128_2_64 (((unsigned __int128)1) << 64)
static long vs_strtol(const char* s, char** end, int base) {
  g_strto_calls = g_strto_calls + 1;
  __CPROVER_assert(base == 0 || base == 10, "strtol called with base 0 or 10");
  const struct g_txt_t* g_txtp = base == 10 ? &g_txt10 : &g_txt0;
  if (!g_txt.any) { *end = (char*)s; return 0; }
  *end = (char*)s + g_txt.consumed;
  if (g_txt.neg) {
    if (g_txt.huge || g_txt.mag > I128_2_63) { verif_errno = ERANGE; return (long)(-0x7fffffffffffffffL - 1L); }
    if (g_txt.mag == I128_2_63) return (long)(-0x7fffffffffffffffL - 1L);
    return -(long)(unsigned long)g_txt.mag;
  }
  if (g_txt.huge || g_txt.mag >= I128_2_63) { verif_errno = ERANGE; return 0x7fffffffffffffffL; }
  return (long)(unsigned long)g_txt.mag;
}
static unsigned long vs_strtoul(const char* s, char** end, int base) {
  g_strto_calls = g_strto_calls + 1;
  __CPROVER_assert(base == 0 || base == 10, "strtoul called with base 0 or 10");
  const struct g_txt_t* g_txtp = base == 10 ? &g_txt10 : &g_txt0;
  if (!g_txt.any) { *end = (char*)s; return 0; }
  *end = (char*)s + g_txt.consumed;
  if (g_txt.huge || g_txt.mag >= I128_2_64) { verif_errno = ERANGE; return 0xffffffffffffffffUL; }
  unsigned long m = (unsigned long)g_txt.mag;
  return g_txt.neg ? 0UL - m : m;      /* ISO C: the negation is performed in the return type */
}
static double vs_strtod(const char* s, char** end) {
  g_strto_calls = g_strto_calls + 1;
  if (!g_dbl.any) { *end = (char*)s; return 0.0; }
  *end = (char*)s + g_dbl.consumed;
  if (g_dbl.erange) verif_errno = ERANGE;
  return g_dbl.value;
}
#define strtol vs_strtol
#define strtoul vs_strtoul
#define strtoll vs_strtol      /* LP64: long long and long are both 64 bit */
#define strtoull vs_strtoul
#define strtod vs_strtod
/* exp2 of an integral argument 0..64 is exact */
static double vs_exp2(double x) {
  __CPROVER_assert(x >= 0.0 && x <= 64.0 && x == (double)(int)x, "model: exp2 only for integral arguments 0..64");
  int k = (int)x;
  return k >= 64 ? 18446744073709551616.0 : (double)(1UL << k);
}
#define exp2 vs_exp2
#undef isfinite
#define isfinite(x) __CPROVER_isfinitef(x)

/* new NumberDataType(...) as the constructors of datatype.h initialise it (mirror of the two initialiser lists used by derive; the type cache is not modelled) */
NDT g_new_type; unsigned g_new_calls;
size_t NDT_calcPrecision(int divisor);
static inline void env_new_type(const NDT* base, size_t bitCount, int divisor, const NDT** derived) {
  g_new_calls = g_new_calls + 1;
  g_new_type = *base; g_new_type.m_bitCount = bitCount; g_new_type.m_divisor = divisor == 0 ? 1 : divisor; g_new_type.m_baseType = base->m_baseType ? base->m_baseType : base; g_new_type.m_incValue = 0;
  if (base->m_bitCount < 8) { g_new_type.m_minValue = 0; g_new_type.m_maxValue = (1u << bitCount) - 1u; g_new_type.m_precision = 0; }
  else { g_new_type.m_precision = NDT_calcPrecision(divisor); g_new_type.m_firstBit = 0; }
  *derived = &g_new_type;
}
static inline void env_new_type_range(const NDT* base, unsigned min, unsigned max, unsigned inc, const NDT** derived) {
  g_new_calls = g_new_calls + 1;
  g_new_type = *base; g_new_type.m_minValue = min; g_new_type.m_maxValue = max; g_new_type.m_incValue = inc; g_new_type.m_baseType = base->m_baseType ? base->m_baseType : base;
  *derived = &g_new_type;
}
#include "gen_protos.h"
#include "ss_contracts.h"

/* ---------- spec helpers over the ghost text ---------- */
#define SPEC_TXT(t) ((NDT_FLAG(t, FIX) && NDT_FLAG(t, BCD)) ? &g_txt10 : &g_txt0)
#define TXT_NEXT(t, s) ((s)->d[SPEC_TXT(t)->consumed])
#define DBL_NEXT(s) ((s)->d[g_dbl.consumed])
static inline _Bool spec_isnull(const NDT* t, const vstr* s) { return !NDT_FLAG(t, REQ) && (NDT_FLAG(t, IGN) || (s->n == 1 && s->d[0] == '-')); }
static inline _Bool spec_int_wellformed(const NDT* t, const vstr* s) { return SPEC_TXT(t)->any && (TXT_NEXT(t, s) == 0 || TXT_NEXT(t, s) == '.'); }
static inline _Bool spec_int_in_width(const NDT* t) {
  const struct g_txt_t* g_txtp = SPEC_TXT(t);
  if (g_txt.huge) return 0;
  unsigned __int128 lim = ((unsigned __int128)1) << t->m_bitCount;
  if (NDT_FLAG(t, SIG)) return g_txt.neg ? g_txt.mag <= lim / 2 : g_txt.mag < lim / 2;
  return g_txt.mag == 0 || (!g_txt.neg && g_txt.mag < lim);
}
static inline unsigned spec_int_enc(const NDT* t) {
  const struct g_txt_t* g_txtp = SPEC_TXT(t);
  unsigned long m = (unsigned long)g_txt.mag;
  unsigned long v = g_txt.neg ? 0UL - m : m;
  return t->m_bitCount >= 32 ? (unsigned)v : (unsigned)(v & ((1UL << t->m_bitCount) - 1UL));
}
static inline double spec_scaled(const NDT* t, double d) { return t->m_divisor < 0 ? round(d / (double)(-t->m_divisor)) : round(d * (double)t->m_divisor); }
static inline _Bool spec_dbl_in_width(const NDT* t, double r) {
  double lim = vs_exp2((double)t->m_bitCount);
  if (NDT_FLAG(t, SIG)) return r >= -lim / 2 && r < lim / 2;
  return r >= 0.0 && r < lim;
}
static inline unsigned spec_dbl_enc(const NDT* t, double r) {
  long v = (long)r;
  return t->m_bitCount >= 32 ? (unsigned)v : (unsigned)((unsigned long)v & ((1UL << t->m_bitCount) - 1UL));
}

/* optional case split of the numeric type space (each case is a separate run; together they cover spec_ndt_valid) */
#ifdef CASE_BCD
#define CASE_REQ(t) (NDT_FLAG(t, BCD) == (CASE_BCD != 0))
#else
#define CASE_REQ(t) 1
#endif
#ifdef CASE_LEN
#define CASE_LENREQ(t) (NDT_LEN(t) == CASE_LEN)
#else
#define CASE_LENREQ(t) 1
#endif
/* ---------------- contracts ---------------- */
result_t NDT_checkValueRange(const NDT* self, unsigned int value, _Bool* pnegative)
__CPROVER_requires(__CPROVER_is_fresh(self, sizeof(*self)) && spec_ndt_valid(self))
__CPROVER_requires(pnegative == NULL || __CPROVER_is_fresh(pnegative, sizeof(*pnegative)))
__CPROVER_requires(self->m_bitCount >= 32 || value < (1u << self->m_bitCount))     /* a raw value of the type's width */
__CPROVER_assigns(pnegative != NULL: *pnegative)
__CPROVER_ensures(__CPROVER_return_value == (spec_range(self, value) == 0 ? RESULT_OK : spec_range(self, value) == 1 ? RESULT_ERR_OUT_OF_RANGE : RESULT_EMPTY))
__CPROVER_ensures(__CPROVER_return_value == RESULT_OK && pnegative != NULL ==>
    *pnegative == (NDT_FLAG(self, SIG) && (value & (1u << (self->m_bitCount - 1))) != 0));

#define RD_B(i) input->m_data.d[SS_DATAOFF(input) + offset + spec_pos(self, length > (i) ? (i) : 0, length)]
#define RD_DEC spec_decode(self, RD_B(0), RD_B(1), RD_B(2), RD_B(3), length)
#define RD_PRE (spec_ndt_valid(self) && SS_OK(input) && length == NDT_LEN(self) && offset <= 255 && CASE_REQ(self) && CASE_LENREQ(self))
#define RD_POST_SHORT(RET) (offset + length > spec_ss_datasize(input) ==> (RET) == RESULT_ERR_INVALID_POS)
#define RD_POST_RET(RET) (offset + length <= spec_ss_datasize(input) ==> (RET) == (RD_DEC.status == 1 ? RESULT_ERR_OUT_OF_RANGE : RESULT_OK))
#define RD_POST_VAL(RET) ((RET) == RESULT_OK ==> *value == RD_DEC.value)
result_t NDT_readRawValue(const NDT* self, size_t offset, size_t length, const SymbolString* input, unsigned int* value)
__CPROVER_requires(__CPROVER_is_fresh(self, sizeof(*self)) && __CPROVER_is_fresh(input, sizeof(*input)) && __CPROVER_is_fresh(value, sizeof(*value)))
__CPROVER_requires(RD_PRE)
__CPROVER_assigns(*value)
__CPROVER_ensures(RD_POST_SHORT(__CPROVER_return_value))
__CPROVER_ensures(RD_POST_RET(__CPROVER_return_value))
__CPROVER_ensures(RD_POST_VAL(__CPROVER_return_value));

#define WR_P (SS_DATAOFF(output) + offset)
#define WR_REJECT (self->m_bitCount < 8 && (value & ~((1u << self->m_bitCount) - 1u)) != 0)
/* expected content of field byte j (0 <= j < length): the byte of the significance position stored there;
   a bit type ORs into a byte that already exists, everything else overwrites */
#define WR_SIG(j) (NDT_FLAG(self, REV) ? length - 1 - (j) : (j))
#define WR_ORCASE(j, OLDN) ((j) == (NDT_FLAG(self, REV) ? length - 1 : (size_t)0) && self->m_bitCount % 8 != 0 && WR_P + (j) < (OLDN))
/* postconditions, parametrised by the pre-state (OLDN = old size, OLDD = old data array) so that the DFCC contract
   and the harness-enforced variant (back end B2) use the same text */
#define WR_POST_RET(RET) ((RET) == (WR_REJECT ? RESULT_ERR_OUT_OF_RANGE : RESULT_OK))
#define WR_POST_SIZE(OLDN) (output->m_data.n == (WR_REJECT ? (OLDN) : ((OLDN) > WR_P + length ? (OLDN) : WR_P + length)))
#define WR_POST_USED (!WR_REJECT && usedLength != NULL ==> *usedLength == length)
#define WR_POST_FRAME(OLDN, OLDD) __CPROVER_forall { size_t k; (k < SS_CAP) ==> ( \
     ((WR_REJECT || k < WR_P || k >= WR_P + length) && k < (OLDN) ==> output->m_data.d[k] == (OLDD)[k]) \
  && (!WR_REJECT && k >= (OLDN) && k < WR_P ==> output->m_data.d[k] == 0)) }
#define WR_POST_BYTE(j, OLDN, OLDD) (!WR_REJECT && (size_t)(j) < length ==> output->m_data.d[WR_P + (j)] == \
        (WR_ORCASE((size_t)(j), OLDN) ? (symbol_t)((OLDD)[WR_P + (j)] | spec_encode_byte(self, value, WR_SIG((size_t)(j)))) : spec_encode_byte(self, value, WR_SIG((size_t)(j)))))
#define WR_PRE (spec_ndt_valid(self) && SS_OK(output) && length == NDT_LEN(self) && offset <= 250 && CASE_REQ(self) && CASE_LENREQ(self))
#define OLD_N __CPROVER_old(output->m_data.n)
#define OLD_D __CPROVER_old(output->m_data).d
result_t NDT_writeRawValue(const NDT* self, unsigned int value, size_t offset, size_t length, SymbolString* output, size_t* usedLength)
__CPROVER_requires(__CPROVER_is_fresh(self, sizeof(*self)) && __CPROVER_is_fresh(output, sizeof(*output)))
__CPROVER_requires(usedLength == NULL || __CPROVER_is_fresh(usedLength, sizeof(*usedLength)))
__CPROVER_requires(WR_PRE)
__CPROVER_assigns(output->m_data.n, __CPROVER_object_whole(output->m_data.d); usedLength != NULL: *usedLength)
__CPROVER_ensures(WR_POST_RET(__CPROVER_return_value))
__CPROVER_ensures(WR_POST_SIZE(OLD_N))
__CPROVER_ensures(WR_POST_USED)
__CPROVER_ensures(WR_POST_FRAME(OLD_N, OLD_D))
__CPROVER_ensures(WR_POST_BYTE(0, OLD_N, OLD_D)) __CPROVER_ensures(WR_POST_BYTE(1, OLD_N, OLD_D))
__CPROVER_ensures(WR_POST_BYTE(2, OLD_N, OLD_D)) __CPROVER_ensures(WR_POST_BYTE(3, OLD_N, OLD_D));

/* parseInput: pre/postconditions as macros (RET = result, OLDV = *parsedValue before the call) shared by the DFCC contract and the B2 harness */
#if !defined(CASE_PI)
#define PI_CASE 1
#elif CASE_PI == 0
#define PI_CASE (!NDT_FLAG(self, EXP) && self->m_divisor == 1)
#elif CASE_PI == 1
#define PI_CASE (!NDT_FLAG(self, EXP) && self->m_divisor > 1)
#elif CASE_PI == 2
#define PI_CASE (!NDT_FLAG(self, EXP) && self->m_divisor < 0)
#else
#define PI_CASE (NDT_FLAG(self, EXP))
#endif
#ifdef CASE_DIV
#define PI_DIVCASE (self->m_divisor == (CASE_DIV))
#else
#define PI_DIVCASE 1
#endif
#define PI_PRE (spec_ndt_valid(self) && PI_CASE && PI_DIVCASE && vstr_valid(inputStr) \
  /* consistency of the ghost reading with the text: the parse end lies inside the text; a conversion consumes at least one character */ \
  && g_txt0.consumed <= inputStr->n && (g_txt0.any ==> g_txt0.consumed >= 1) && (g_txt0.huge || g_txt0.mag < (((unsigned __int128)1) << 100)) \
  && g_txt10.consumed <= inputStr->n && (g_txt10.any ==> g_txt10.consumed >= 1) && (g_txt10.huge || g_txt10.mag < (((unsigned __int128)1) << 100)) \
  && g_dbl.consumed <= inputStr->n && (g_dbl.any ==> g_dbl.consumed >= 1) \
  && (g_dbl.erange ==> (g_dbl.value == HUGE_VAL || g_dbl.value == -HUGE_VAL || (g_dbl.value > -2.3e-308 && g_dbl.value < 2.3e-308))) \
  && g_strto_calls == 0)
#define PI_INT (!spec_isnull(self, inputStr) && !NDT_FLAG(self, EXP) && self->m_divisor == 1)
#define PI_FIX (!spec_isnull(self, inputStr) && !NDT_FLAG(self, EXP) && self->m_divisor != 1)
#define PI_DBL_OK (g_dbl.any && DBL_NEXT(inputStr) == 0 && !g_dbl.erange && __CPROVER_isfinited(g_dbl.value))
/* null input */
#define PI_POST_NULL(RET) (spec_isnull(self, inputStr) ==> (RET) == RESULT_OK && *parsedValue == self->m_replacement)
#define PI_POST_EMPTY(RET) (!spec_isnull(self, inputStr) && inputStr->n == 0 ==> (RET) == RESULT_ERR_EOF)
/* integer types (divisor 1): soundness - accepted only if well-formed, inside the width, inside min/max, and encoded exactly */
#define PI_POST_INT_SOUND(RET) (PI_INT && (RET) == RESULT_OK ==> \
     spec_int_wellformed(self, inputStr) && spec_int_in_width(self) && *parsedValue == spec_int_enc(self) && spec_range(self, *parsedValue) == 0)
/* ... completeness and purity: a well-formed in-range text is accepted whatever errno held before the call */
#define PI_POST_INT_COMPLETE(RET) (PI_INT && inputStr->n > 0 && spec_int_wellformed(self, inputStr) && spec_int_in_width(self) && spec_range(self, spec_int_enc(self)) == 0 ==> (RET) == RESULT_OK)
/* fixed-point types (divisor != 1): accepted only if the whole text is a finite number whose scaled, rounded value fits */
#define PI_POST_FIX_SOUND(RET) (PI_FIX && (RET) == RESULT_OK ==> PI_DBL_OK && spec_dbl_in_width(self, spec_scaled(self, g_dbl.value)) \
     && *parsedValue == spec_dbl_enc(self, spec_scaled(self, g_dbl.value)) && spec_range(self, *parsedValue) == 0)
#define PI_POST_FIX_COMPLETE(RET) (PI_FIX && inputStr->n > 0 && PI_DBL_OK && spec_dbl_in_width(self, spec_scaled(self, g_dbl.value)) \
     && spec_range(self, spec_dbl_enc(self, spec_scaled(self, g_dbl.value))) == 0 ==> (RET) == RESULT_OK)
/* IEEE 754 types: never NaN/infinity, never a partially parsed text */
#define PI_POST_EXP_SOUND(RET) (!spec_isnull(self, inputStr) && NDT_FLAG(self, EXP) && (RET) == RESULT_OK ==> \
     g_dbl.any && DBL_NEXT(inputStr) == 0 && !g_dbl.erange && __CPROVER_isfinitef(spec_bits_to_float(*parsedValue)) && spec_range(self, *parsedValue) == 0)
/* the C library is consulted at most once and an error never leaves a value behind */
#define PI_POST_ONCE (g_strto_calls <= 1)
#define PI_POST_ERRKEEP(RET, OLDV) ((RET) != RESULT_OK ==> *parsedValue == (OLDV))
result_t NDT_parseInput(const NDT* self, const vstr* inputStr, unsigned int* parsedValue)
__CPROVER_requires(__CPROVER_is_fresh(self, sizeof(*self)) && __CPROVER_is_fresh(inputStr, sizeof(*inputStr)) && __CPROVER_is_fresh(parsedValue, sizeof(*parsedValue)))
__CPROVER_requires(PI_PRE)
__CPROVER_assigns(*parsedValue, verif_errno, g_strto_calls)
__CPROVER_ensures(PI_POST_NULL(__CPROVER_return_value))
__CPROVER_ensures(PI_POST_EMPTY(__CPROVER_return_value))
__CPROVER_ensures(PI_POST_INT_SOUND(__CPROVER_return_value))
__CPROVER_ensures(PI_POST_INT_COMPLETE(__CPROVER_return_value))
__CPROVER_ensures(PI_POST_FIX_SOUND(__CPROVER_return_value))
__CPROVER_ensures(PI_POST_FIX_COMPLETE(__CPROVER_return_value))
__CPROVER_ensures(PI_POST_EXP_SOUND(__CPROVER_return_value))
__CPROVER_ensures(PI_POST_ONCE)
__CPROVER_ensures(PI_POST_ERRKEEP(__CPROVER_return_value, __CPROVER_old(*parsedValue)));

size_t NDT_calcPrecision(int divisor)
__CPROVER_requires(1)
__CPROVER_assigns()
/* number of decimals needed for a divisor: ceil(log10(divisor)), 0 for divisors <= 1, at most 9 */
__CPROVER_ensures(__CPROVER_return_value == (divisor <= 1 ? 0u : divisor <= 10 ? 1u : divisor <= 100 ? 2u : divisor <= 1000 ? 3u : divisor <= 10000 ? 4u :
     divisor <= 100000 ? 5u : divisor <= 1000000 ? 6u : divisor <= 10000000 ? 7u : divisor <= 100000000 ? 8u : 9u));

#include "gen_funcs.inc"

/* ---------------- harnesses ---------------- */
void h_checkValueRange(void) {
  NDT t; _Bool neg;
  result_t r = NDT_checkValueRange(&t, nondet_uint(), nondet_bool() ? &neg : NULL);
  if (r == RESULT_OK) { CANARY("in range"); } else if (r == RESULT_ERR_OUT_OF_RANGE) { CANARY("out of range"); } else { CANARY("empty"); }
}
void h_readRawValue(void) {
  NDT t; SymbolString in; unsigned v;
  result_t r = NDT_readRawValue(&t, nondet_size(), nondet_size(), &in, &v);
  if (r == RESULT_OK) {
    CANARY("decoded");
#if !defined(CASE_BCD) || CASE_BCD == 1
    if (t.m_flags & BCD) { CANARY("decoded BCD"); }
#endif
#if (!defined(CASE_BCD) || CASE_BCD == 0) && (!defined(CASE_LEN) || CASE_LEN == 1)
    if (t.m_bitCount < 8) { CANARY("decoded bits"); }
#endif
  }
#if !defined(CASE_BCD) || CASE_BCD == 1
  if (r == RESULT_ERR_OUT_OF_RANGE) { CANARY("invalid digit"); }
#endif
  if (r == RESULT_ERR_INVALID_POS) { CANARY("short data"); }
}
void h_writeRawValue(void) {
  NDT t; SymbolString out; size_t used;
  result_t r = NDT_writeRawValue(&t, nondet_uint(), nondet_size(), nondet_size(), &out, nondet_bool() ? &used : NULL);
  if (r == RESULT_OK) { CANARY("encoded"); }
#if !defined(CASE_FLAGS) && (!defined(CASE_BCD) || CASE_BCD == 0) && (!defined(CASE_LEN) || CASE_LEN == 1)
  if (r == RESULT_OK && t.m_bitCount < 8) { CANARY("encoded bits"); }
  if (r != RESULT_OK) { CANARY("rejected"); }
#endif
}
/* back end B2: the same pre/postconditions enforced by an assume/assert harness (DFCC did not finish, see DESIGN.md 4.4);
   the accessors are the real inline bodies of symbol.h over the vector model, not their contracts */
void h_writeRawValue_b2(void) {
  NDT t; SymbolString out, old; size_t used = nondet_size(), used0;
  const NDT* self = &t; SymbolString* output = &out;
  unsigned value = nondet_uint(); size_t offset = nondet_size(), length = nondet_size();
  size_t* usedLength = nondet_bool() ? &used : NULL;
#ifdef CASE_FLAGS
  t.m_flags = CASE_FLAGS;   /* concrete flag word: the function tests no flag outside BCD|HCD|REQ|REV (checked at extraction) */
#endif
  __CPROVER_assume(WR_PRE);
  old = out; used0 = used;
  result_t r = NDT_writeRawValue(self, value, offset, length, output, usedLength);
  __CPROVER_assert(WR_POST_RET(r), "writeRawValue post: result code");
  __CPROVER_assert(WR_POST_SIZE(old.m_data.n), "writeRawValue post: size of the output");
  __CPROVER_assert(WR_POST_USED, "writeRawValue post: used length");
  __CPROVER_assert(WR_POST_FRAME(old.m_data.n, old.m_data.d), "writeRawValue post: frame (bytes outside the field unchanged, gap zero-filled)");
  __CPROVER_assert(WR_POST_BYTE(0, old.m_data.n, old.m_data.d), "writeRawValue post: field byte 0");
  __CPROVER_assert(WR_POST_BYTE(1, old.m_data.n, old.m_data.d), "writeRawValue post: field byte 1");
  __CPROVER_assert(WR_POST_BYTE(2, old.m_data.n, old.m_data.d), "writeRawValue post: field byte 2");
  __CPROVER_assert(WR_POST_BYTE(3, old.m_data.n, old.m_data.d), "writeRawValue post: field byte 3");
  __CPROVER_assert(usedLength != NULL || used == used0, "writeRawValue frame: nothing else written");
  if (r == RESULT_OK) { CANARY("encoded"); }
#if !defined(CASE_FLAGS) && (!defined(CASE_BCD) || CASE_BCD == 0) && (!defined(CASE_LEN) || CASE_LEN == 1)
  if (r == RESULT_OK && t.m_bitCount < 8) { CANARY("encoded bits"); }
  if (r != RESULT_OK) { CANARY("rejected"); }
#endif
}
void h_readRawValue_b2(void) {
  NDT t; SymbolString in, in0; unsigned v = nondet_uint(), v0;
  const NDT* self = &t; const SymbolString* input = &in; unsigned* value = &v;
  size_t offset = nondet_size(), length = nondet_size();
#ifdef CASE_FLAGS
  t.m_flags = CASE_FLAGS;
#endif
  __CPROVER_assume(RD_PRE);
  in0 = in; v0 = v;
  result_t r = NDT_readRawValue(self, offset, length, input, value);
  __CPROVER_assert(RD_POST_SHORT(r), "readRawValue post: not enough data");
  __CPROVER_assert(RD_POST_RET(r), "readRawValue post: result code");
  __CPROVER_assert(RD_POST_VAL(r), "readRawValue post: decoded value");
  __CPROVER_assert(in.m_data.n == in0.m_data.n && in.m_isMaster == in0.m_isMaster, "readRawValue frame: input size unchanged");
  __CPROVER_assert(__CPROVER_forall { size_t k; (k < SS_CAP) ==> in.m_data.d[k] == in0.m_data.d[k] }, "readRawValue frame: input bytes unchanged");
  if (r == RESULT_OK) { CANARY("decoded"); }
  if (r == RESULT_ERR_OUT_OF_RANGE) { CANARY("invalid digit"); }
}
void h_parseInput(void) {
  NDT t; vstr s; unsigned v;
  g_strto_calls = 0;
  result_t r = NDT_parseInput(&t, &s, &v);
  if (r == RESULT_OK) {
    CANARY("parsed");
#if !defined(CASE_PI) || CASE_PI == 1 || CASE_PI == 2
    if (t.m_divisor != 1 && !(t.m_flags & EXP)) { CANARY("parsed fixed point"); }
#endif
#if !defined(CASE_PI) || CASE_PI == 3
    if (t.m_flags & EXP) { CANARY("parsed float"); }
#endif
  }
  if (r == RESULT_ERR_OUT_OF_RANGE) { CANARY("out of range"); }
  if (r == RESULT_ERR_INVALID_NUM) { CANARY("invalid"); }
}
/* B2 variant of the same contract: explicit harness locals make the counterexample readable and replayable */
NDT nondet_NDT(void); vstr nondet_vstr(void); struct g_txt_t nondet_txt(void); struct g_dbl_t nondet_dbl(void); SymbolString nondet_SS(void);
void h_parseInput_b2(void) {
  NDT t = nondet_NDT(); vstr str = nondet_vstr(); unsigned v = nondet_uint(), v0;
  const NDT* self = &t; const vstr* inputStr = &str; unsigned* parsedValue = &v;
  struct g_txt_t txt = nondet_txt(), txt10 = nondet_txt(); struct g_dbl_t dbl = nondet_dbl(); int errno0 = nondet_int();
  g_txt0 = txt; g_txt10 = txt10; g_dbl = dbl; verif_errno = errno0; g_strto_calls = 0;
#ifdef CASE_DIV
  t.m_divisor = (CASE_DIV);
#endif
  __CPROVER_assume(PI_PRE);
  v0 = v;
  result_t r = NDT_parseInput(self, inputStr, parsedValue);
  __CPROVER_assert(PI_POST_NULL(r), "parseInput: null input gives the replacement value");
  __CPROVER_assert(PI_POST_EMPTY(r), "parseInput: empty input is rejected");
  __CPROVER_assert(PI_POST_INT_SOUND(r), "[C07] parseInput integer: accepted only if well-formed, within width and min/max, encoded exactly (no wrap/truncation)");
  __CPROVER_assert(PI_POST_INT_COMPLETE(r), "[C07,C12] parseInput integer: well-formed in-range text accepted independent of errno left by earlier operations");
  __CPROVER_assert(PI_POST_FIX_SOUND(r), "[C07] parseInput fixed point: accepted only for a finite, completely parsed number whose scaled value fits (no NaN/inf/wrap)");
  __CPROVER_assert(PI_POST_FIX_COMPLETE(r), "[C07,C12] parseInput fixed point: in-range number accepted independent of errno left by earlier operations");
  __CPROVER_assert(PI_POST_EXP_SOUND(r), "[C07] parseInput IEEE float: never NaN/infinity or partial text");
  __CPROVER_assert(PI_POST_ONCE, "parseInput: C library consulted at most once");
  __CPROVER_assert(PI_POST_ERRKEEP(r, v0), "parseInput: error leaves the output untouched");
  if (r == RESULT_OK) {
    CANARY("parsed");
#if !defined(CASE_PI) || CASE_PI == 1 || CASE_PI == 2
    if (t.m_divisor != 1 && !(t.m_flags & EXP)) { CANARY("parsed fixed point"); }
#endif
#if !defined(CASE_PI) || CASE_PI == 3
    if (t.m_flags & EXP) { CANARY("parsed float"); }
#endif
  }
  if (r == RESULT_ERR_OUT_OF_RANGE) { CANARY("out of range"); }
  if (r == RESULT_ERR_INVALID_NUM) { CANARY("invalid"); }
}
void h_calcPrecision(void) { NDT_calcPrecision(nondet_int()); CANARY("returns"); }

/* C06 L1: encode inverts decode at raw level - a lemma over the specification functions the two contracts are stated in */
void h_roundtrip(void) {
  NDT t; symbol_t b[4]; size_t length = nondet_size();
  for (int i = 0; i < 4; i++) b[i] = nondet_sym();
  __CPROVER_assume(spec_ndt_valid(&t) && length == NDT_LEN(&t) && CASE_REQ(&t) && CASE_LENREQ(&t));
  spec_rv d = spec_decode(&t, b[spec_pos(&t, 0, length)], b[spec_pos(&t, length > 1 ? 1 : 0, length)], b[spec_pos(&t, length > 2 ? 2 : 0, length)], b[spec_pos(&t, length > 3 ? 3 : 0, length)], length);
  if (d.status == 0 && spec_range(&t, d.value) == 0 && (NDT_FLAG(&t, REQ) || d.value != t.m_replacement)) {
    CANARY("decodable value");
    for (size_t j = 0; j < 4; j++) {
      if (j < length) {
        symbol_t e = spec_encode_byte(&t, d.value, NDT_FLAG(&t, REV) ? length - 1 - j : j);
        __CPROVER_assert((e & spec_owned_mask(&t)) == (b[j] & spec_owned_mask(&t)), "encode(decode(bytes)) reproduces the bytes on the owned bits");
        __CPROVER_assert((e & (symbol_t)~spec_owned_mask(&t)) == 0, "encode sets no bit outside the owned bits");
      }
    }
  }
  if ((d.status == 3 || (d.status == 0 && !NDT_FLAG(&t, REQ) && d.value == t.m_replacement)) && t.m_bitCount >= 8) {
    CANARY("null value");
    for (size_t j = 0; j < 4; j++) {
      if (j < length) {
        symbol_t e = spec_encode_byte(&t, t.m_replacement, NDT_FLAG(&t, REV) ? length - 1 - j : j);
        symbol_t canon = NDT_FLAG(&t, BCD) ? (symbol_t)(t.m_replacement & 0xff) : (symbol_t)((t.m_replacement >> (8 * (NDT_FLAG(&t, REV) ? length - 1 - j : j))) & 0xff);
        __CPROVER_assert(e == canon, "null encodes to the canonical replacement pattern");
      }
    }
  }
}

/* a field definition with its own divisor / bit count derives a type from the base type: the combined divisor is the mathematical product (or the
   definition is rejected), and the derived type is again a valid type shape (what every numeric proof of this unit assumes) */
void h_derive(void) {
  NDT t = nondet_NDT(); int divisor = nondet_int(); size_t bitCount = nondet_size(); const NDT* out = NULL; g_new_calls = 0;
  __CPROVER_assume(spec_ndt_valid(&t) && divisor >= -MAX_DIVISOR && divisor <= MAX_DIVISOR && bitCount <= 64);       /* the divisor as DataField::create parses it */
  __CPROVER_assume(!(t.m_bitCount < 8) || (t.m_divisor == 1 && t.m_replacement == 0));      /* bit types of the built-in table (h_type_table) */
  __CPROVER_assume(t.m_bitCount < 8 || !NDT_FLAG(&t, ADJ));            /* only bit types have an adjustable length (h_type_table) */
#ifdef CASE_BASEDIV
  __CPROVER_assume(t.m_divisor == (CASE_BASEDIV));      /* divisor of the base type: one run per built-in divisor (a symbolic product does not finish) */
#endif
  result_t r = NDT_derive(&t, divisor, bitCount, &out);
  long d = divisor == 0 ? 1 : divisor, b = t.m_divisor, combined;
  _Bool invalid = 0;
  if (b == 1) combined = d; else if (d == 1) combined = b; else if (d < 0) { invalid = b > 1; combined = d * -b; } else if (b < 0) { invalid = d > 1; combined = d * -b; } else combined = d * b;
  if (invalid) { __CPROVER_assert(r == RESULT_ERR_INVALID_ARG, "[C07] a divisor cannot be combined with a multiplier of the base type"); }
  else if (combined < -MAX_DIVISOR || combined > MAX_DIVISOR) { __CPROVER_assert(r < 0, "[C07,C20] a combined divisor beyond the supported range is rejected (and never wraps)");
#if !defined(CASE_BASEDIV) || (CASE_BASEDIV) != 1
    CANARY("too big");      /* not reachable with base divisor 1: the field divisor itself is within range */
#endif
  }
  else if (r == RESULT_OK) {
    __CPROVER_assert(out != NULL && (long)out->m_divisor == combined, "[C07] the derived type has the product of both divisors");
    __CPROVER_assert(spec_ndt_valid(out), "[C05,C07] a derived type is a valid type shape again");
    if (out != &t) { CANARY("new type"); }
  }
}

/* a field definition with its own value range derives a type with that range: both bounds must be raw values the base type accepts */
void h_derive_range(void) {
  NDT t = nondet_NDT(); unsigned min = nondet_uint(), max = nondet_uint(), inc = nondet_uint(); const NDT* out = NULL; g_new_calls = 0;
  __CPROVER_assume(spec_ndt_valid(&t) && !NDT_FLAG(&t, EXP));
  /* the bounds are raw values produced by parseInput of the same type (DataField::create), i.e. within the width (parseInput postcondition) */
  __CPROVER_assume(t.m_bitCount >= 32 || (min < (1u << t.m_bitCount) && max < (1u << t.m_bitCount)));
  result_t r = NDT_derive_range(&t, min, max, inc, &out);
  result_t rmin = NDT_checkValueRange(&t, min, NULL), rmax = NDT_checkValueRange(&t, max, NULL);
  if (t.m_bitCount < 8) { __CPROVER_assert(r == RESULT_ERR_INVALID_ARG, "[C07] a bit type has no value range of its own"); }
  else if (min == t.m_minValue && max == t.m_maxValue && (inc == 0 || inc == t.m_incValue)) { __CPROVER_assert(r == RESULT_OK && out == &t, "[C07] an unchanged range keeps the type"); }
  else if (rmin != RESULT_OK || rmax != RESULT_OK) { __CPROVER_assert(r == RESULT_ERR_OUT_OF_RANGE && g_new_calls == 0, "[C07] a range bound the base type does not accept (beyond its width or its own range, or its replacement value) is rejected"); CANARY("bound rejected"); }
  else {
    __CPROVER_assert(r == RESULT_OK && out != NULL && out->m_minValue == min && out->m_maxValue == max && out->m_incValue == inc, "[C07] the derived type carries the requested range");
    __CPROVER_assert(out->m_bitCount == t.m_bitCount && out->m_flags == t.m_flags && out->m_divisor == t.m_divisor && out->m_replacement == t.m_replacement && out->m_firstBit == t.m_firstBit, "[C07] width, flags, divisor and replacement value are those of the base type");
    __CPROVER_assert(spec_ndt_valid(out), "[C05,C07] a derived type is a valid type shape again");
    CANARY("range type");
  }
}

/* every built-in number type (table generated from the `add(new NumberDataType(...))` lines, rule R15g) is a valid type shape: this discharges the
   precondition spec_ndt_valid of the numeric proofs for the types that exist (derived types: h_derive) */
void h_type_table(void) {
  for (unsigned i = 0; i < NDT_TABLE_N; i++) {
    NDT t; t.m_bitCount = ndt_table[i].bitCount; t.m_flags = (uint16_t)(ndt_table[i].flags | NUM); t.m_replacement = ndt_table[i].replacement; t.m_incValue = 0; t.m_baseType = NULL;
    t.m_divisor = ndt_table[i].divisor == 0 ? 1 : ndt_table[i].divisor;
    if (ndt_table[i].is_bits) { t.m_minValue = 0; t.m_maxValue = (1u << ndt_table[i].bitCount) - 1u; t.m_precision = 0; t.m_firstBit = (int16_t)ndt_table[i].firstBit; }
    else { t.m_minValue = ndt_table[i].minValue; t.m_maxValue = ndt_table[i].maxValue; t.m_precision = NDT_calcPrecision(ndt_table[i].divisor); t.m_firstBit = 0; }
    __CPROVER_assert(spec_ndt_valid(&t), "[C05,C07] every built-in number type is a valid type shape");
    __CPROVER_assert(!ndt_table[i].is_bits || (t.m_replacement == 0 && t.m_divisor == 1), "[C05] bit types have no replacement value and no divisor");
    __CPROVER_assert(ndt_table[i].is_bits || !NDT_FLAG(&t, ADJ), "[C05] only bit types have an adjustable length");
    __CPROVER_assert(t.m_divisor == 1 || t.m_divisor == 2 || t.m_divisor == 16 || t.m_divisor == 256 || t.m_divisor == 1000, "[C07] the built-in divisors are those the derive proof is split over");
  }
  CANARY("table checked");
}
