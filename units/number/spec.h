/* Specification of the numeric base types (C05/C06/C07), written from the type documentation in
 * DataTypeList (datatype.cpp/.h comments) and the property statements - not from the function bodies.
 * Loop-free: positions are unrolled up to the maximum numeric length of 4 bytes. */
#ifndef NUMBER_SPEC_H
#define NUMBER_SPEC_H

#define NDT_LEN(t) ((t)->m_bitCount < 8 ? (size_t)1 : (t)->m_bitCount / 8)
#define NDT_FLAG(t, f) (((t)->m_flags & (f)) != 0)

/* type invariant established by the three NumberDataType constructors and the registry rows */
static inline _Bool spec_ndt_valid(const NDT* t) {
  if (t->m_bitCount < 1 || t->m_bitCount > 32) return 0;
  if (t->m_divisor == 0 || t->m_divisor < -MAX_DIVISOR || t->m_divisor > MAX_DIVISOR) return 0;
  if (t->m_bitCount < 8) {
    if (t->m_firstBit < 0 || (size_t)t->m_firstBit + t->m_bitCount > 8) return 0;
    if (t->m_minValue != 0 || t->m_maxValue != (1u << t->m_bitCount) - 1u) return 0;
    if (t->m_flags & (BCD | HCD | SIG | EXP | REV)) return 0;
    if (t->m_replacement > t->m_maxValue) return 0;
  } else {
    if (t->m_bitCount % 8 != 0 || t->m_firstBit != 0) return 0;
    if (t->m_bitCount < 32) {
      unsigned lim = 1u << t->m_bitCount;
      if (t->m_minValue >= lim || t->m_maxValue >= lim || t->m_replacement >= lim) return 0;
    }
  }
  if ((t->m_flags & EXP) && !(t->m_bitCount == 32 && (t->m_flags & SIG))) return 0;
  if ((t->m_flags & HCD) && !(t->m_flags & BCD)) return 0;
  if ((t->m_flags & BCD) && (t->m_flags & (SIG | EXP))) return 0;
  return 1;
}

/* two's complement reading of a raw value of the type's width */
static inline long spec_signed(const NDT* t, unsigned v) {
  if (t->m_bitCount >= 32) return (long)(int)v;
  return (v & (1u << (t->m_bitCount - 1))) ? (long)v - (1L << t->m_bitCount) : (long)v;
}
static inline float spec_bits_to_float(unsigned v) { union { unsigned u; float f; } x; x.u = v; return x.f; }

/* range verdict: 0 = in range, 1 = out of range, 2 = "empty" (non-finite float) */
static inline int spec_range(const NDT* t, unsigned v) {
  if (NDT_FLAG(t, SIG)) {
    if (NDT_FLAG(t, EXP)) {
      float f = spec_bits_to_float(v), lo = spec_bits_to_float(t->m_minValue), hi = spec_bits_to_float(t->m_maxValue);
      if (!__CPROVER_isfinitef(f) || !__CPROVER_isfinitef(lo)) return 2;
      if (f < lo) return 1;
      if (!__CPROVER_isfinitef(hi)) return 2;
      if (f > hi) return 1;
      return 0;
    }
    long sv = spec_signed(t, v);
    return (spec_signed(t, t->m_minValue) <= sv && sv <= spec_signed(t, t->m_maxValue)) ? 0 : 1;
  }
  return (t->m_minValue <= v && v <= t->m_maxValue) ? 0 : 1;
}

/* ---- decoding of up to four bytes in significance order s0 (least) .. s3 ---- */
typedef struct spec_rv { int status; unsigned value; } spec_rv;   /* status: 0 ok, 1 invalid digit, 3 = replacement */
static inline int spec_bcd_digit(const NDT* t, symbol_t x) {      /* -1 invalid */
  if (NDT_FLAG(t, HCD)) return x > 99 ? -1 : (int)x;
  if ((x >> 4) > 9 || (x & 0x0f) > 9) return -1;
  return (x >> 4) * 10 + (x & 0x0f);
}
static inline spec_rv spec_decode(const NDT* t, symbol_t s0, symbol_t s1, symbol_t s2, symbol_t s3, size_t length) {
  spec_rv r; r.status = 0; r.value = 0;
  symbol_t s[4] = {s0, s1, s2, s3};
  if (NDT_FLAG(t, BCD)) {
    unsigned mul = 1, acc = 0;
#define SPEC_BCD_POS(i) if (length > (i)) { \
      if (!NDT_FLAG(t, REQ) && s[i] == (t->m_replacement & 0xff)) { r.status = 3; r.value = t->m_replacement; return r; } \
      int d_ = spec_bcd_digit(t, s[i]); if (d_ < 0) { r.status = 1; return r; } \
      acc += (unsigned)d_ * mul; mul *= 100; }
    SPEC_BCD_POS(0) SPEC_BCD_POS(1) SPEC_BCD_POS(2) SPEC_BCD_POS(3)
    r.value = acc;
    return r;
  }
  unsigned v = 0;
  if (length > 0) v |= (unsigned)s0;
  if (length > 1) v |= (unsigned)s1 << 8;
  if (length > 2) v |= (unsigned)s2 << 16;
  if (length > 3) v |= (unsigned)s3 << 24;
  if (t->m_firstBit > 0) v >>= t->m_firstBit;
  if (t->m_bitCount < 8) v &= (1u << t->m_bitCount) - 1u;
  r.value = v;
  return r;
}
/* ---- encoding: byte of significance position i for a raw value ---- */
static inline symbol_t spec_encode_byte(const NDT* t, unsigned value, size_t i) {
  unsigned v = t->m_firstBit > 0 ? value << t->m_firstBit : value;
  if (NDT_FLAG(t, BCD)) {
    if (!NDT_FLAG(t, REQ) && v == t->m_replacement) return (symbol_t)(t->m_replacement & 0xff);
    unsigned long div = i == 0 ? 1ul : i == 1 ? 100ul : i == 2 ? 10000ul : 1000000ul;
    symbol_t d = (symbol_t)((v / div) % 100);
    return NDT_FLAG(t, HCD) ? d : (symbol_t)(((d / 10) << 4) | (d % 10));
  }
  return (symbol_t)((v >> (8 * i)) & 0xff);
}
/* byte index (within the field) of significance position i */
static inline size_t spec_pos(const NDT* t, size_t i, size_t length) { return NDT_FLAG(t, REV) ? length - 1 - i : i; }
/* bits of its (single) byte a bit type owns */
static inline symbol_t spec_owned_mask(const NDT* t) {
  return t->m_bitCount < 8 ? (symbol_t)(((1u << t->m_bitCount) - 1u) << t->m_firstBit) : (symbol_t)0xff;
}
static inline size_t spec_ss_datasize(const SymbolString* s) {
  size_t lo = s->m_isMaster ? 4 : 0;
  if (s->m_data.n <= lo) return 0;
  size_t nn = s->m_data.d[lo];
  return s->m_data.n - lo - 1 < nn ? s->m_data.n - lo - 1 : nn;
}
static inline size_t spec_ss_calcsize(const SymbolString* s) {
  size_t lo = s->m_isMaster ? 4 : 0;
  return s->m_data.n <= lo ? 0 : s->m_data.n - lo - 1;
}
#endif
