SS_CAP = 264
DT_CPP = 'src/lib/ebus/datatype.cpp'
DT_H = 'src/lib/ebus/datatype.h'
SYM_H = 'src/lib/ebus/symbol.h'

_inl = dict(file=DT_H, inline_class='DataType', self='NDT')


def _replay(run, inputs, rp, repo, verif):
    import replay
    exe = replay.build('number', ['src/lib/ebus/datatype.cpp', 'src/lib/ebus/symbol.cpp', 'src/lib/ebus/result.cpp', 'src/lib/ebus/contrib/contrib.cpp',
                                  'src/lib/ebus/contrib/tem.cpp'], repo, verif)
    return replay.run(exe, [run['id']])


def _ndt_table(repo):
    """R15g: the built-in number types: every `add(new NumberDataType(id, ...))` of DataTypeList::DataTypeList as a row of ndt_table (argument text verbatim);
    6 arguments = bit type (id, bits, flags, replacement, firstBit, divisor), 7 = byte type (id, bits, flags, replacement, min, max, divisor)"""
    import re, os
    txt = open(os.path.join(repo, DT_CPP)).read()
    rows = []
    for m in re.finditer(r'^\s*add\(new NumberDataType\("([A-Z0-9:]+)",\s*([^;]*?)\)\);', txt, re.M):
        args = [a.strip() for a in m.group(2).split(',')]
        if len(args) == 5:
            rows.append('{ %s, %s, %s, 0, 0, %s, %s, 1 }' % (args[0], args[1], args[2], args[4], args[3]))
        elif len(args) == 6:
            rows.append('{ %s, %s, %s, %s, %s, %s, 0, 0 }' % (args[0], args[1], args[2], args[3], args[4], args[5]))
        else:
            raise Exception('unexpected NumberDataType constructor call: %s' % m.group(0))
    text = 'static const struct { size_t bitCount; unsigned flags, replacement, minValue, maxValue; int divisor; int firstBit; int is_bits; } ndt_table[] = {\n  ' + ',\n  '.join(rows) + '\n};\n#define NDT_TABLE_N %d' % len(rows)
    return text, len(rows)


UNIT = dict(
    generated=[_ndt_table],
    replay=_replay,
    trusted=['strtol/strtoul/strtod are environment stubs (units/number/main.c): they return the clamp of a ghost mathematical reading of the text, set errno=ERANGE exactly on overflow and leave errno untouched otherwise (ISO C 7.22.1)',
             'exp2() for integral arguments 0..64 is exact; round() is CBMC\'s IEEE round-half-away-from-zero',
             'SymbolString accessors are used through their contracts (model/ss_contracts.h), enforced against the real inline bodies in unit symbol'],
    defines=[(DT_H, ['MAX_DIVISOR', 'MAX_LEN', 'NULL_VALUE', 'ADJ', 'BCD', 'REV', 'SIG', 'IGN', 'FIX', 'REQ', 'HCD', 'EXP', 'DAY', 'NUM', 'DAT', 'SPE', 'DUP', 'REZ'])],
    enums=[('src/lib/ebus/result.h', 'result_t'), (SYM_H, 'PredefinedSymbol', 'PredefinedSymbol', 'symbol_t')],
    structs=[dict(file=SYM_H, classes=['SymbolString'], cname='SymbolString', member_types={'m_data': 'vsym'}, is_self=False),
             dict(parts=[(DT_H, 'DataType'), (DT_H, 'NumberDataType')], cname='NDT', skip=('m_id',),
                  member_types={'m_baseType': 'const struct NDT*'})],
    cfg=dict(
        type_map={'string': 'vstr'},
        byval_as_ptr={'string': 'vstr'},
        methods={
            'getDataSize': 'SymbolString_getDataSize', 'getCalculatedDataSize': 'SymbolString_getCalculatedDataSize',
            'dataAt': [(r'^input$', 'SymbolString_dataAt'), (r'^output$', 'SymbolString_dataAt_nc')],
            'empty': 'vstr_empty', 'c_str': 'vstr_c_str',
        },
        ref_returns=['SymbolString_dataAt_nc'],
        own_methods={'hasFlag': ('DataType_hasFlag', 'self'), 'isIgnored': ('DataType_isIgnored', 'self'),
                     'checkValueRange': ('NDT_checkValueRange', 'self')},
        defaults={'NDT_checkValueRange': (3, ['NULL'])},
        text_subs=[(r'\(\*inputStr\) == NULL_VALUE', 'vstr_eq_lit(inputStr, NULL_VALUE)')],
    ),
    functions=[
        dict(file=SYM_H, inline_class='SymbolString', self='SymbolString', name='getDataSize', cname='SymbolString_getDataSize',
             cfg=dict(methods={'size': 'vsym_size'}, index=[(r'^m_data$', 'vsym_get')], members={'m_data', 'm_isMaster'})),
        dict(file=SYM_H, inline_class='SymbolString', self='SymbolString', name='dataAt', sig='(size_t index) const', cname='SymbolString_dataAt',
             cfg=dict(methods={'size': 'vsym_size'}, index=[(r'^m_data$', 'vsym_get')], members={'m_data', 'm_isMaster'})),
        dict(file=SYM_H, inline_class='SymbolString', self='SymbolString', name='getCalculatedDataSize', cname='SymbolString_getCalculatedDataSize',
             cfg=dict(methods={'size': 'vsym_size'}, index=[(r'^m_data$', 'vsym_get')], members={'m_data', 'm_isMaster'})),
        dict(file=SYM_H, inline_class='SymbolString', self='SymbolString', name='dataAt', sig='(size_t index)', nth=1, cname='SymbolString_dataAt_nc',
             cfg=dict(methods={'size': 'vsym_size', 'resize': 'vsym_resize'}, index=[(r'^m_data$', 'vsym_ref')], ref_returns=['vsym_ref', 'SymbolString_dataAt_nc'], members={'m_data', 'm_isMaster'})),
        dict(_inl, name='hasFlag', cname='DataType_hasFlag', static=True),
        dict(_inl, name='isIgnored', cname='DataType_isIgnored', static=True),
        dict(file=DT_CPP, name='uintToFloat', cname='uintToFloat', self=None),
        dict(file=DT_CPP, name='floatToUint', cname='floatToUint', self=None),
        dict(file=DT_CPP, name='NumberDataType::checkValueRange', cname='NDT_checkValueRange', self='NDT'),
        dict(file=DT_CPP, name='NumberDataType::readRawValue', cname='NDT_readRawValue', self='NDT'),
        dict(file=DT_CPP, name='NumberDataType::writeRawValue', cname='NDT_writeRawValue', self='NDT'),
        dict(file=DT_CPP, name='NumberDataType::parseInput', cname='NDT_parseInput', self='NDT'),
        dict(file=DT_CPP, name='NumberDataType::getRawValueFromFloat', cname='NDT_getRawValueFromFloat', self='NDT'),
        dict(file=DT_CPP, name='NumberDataType::getFloatFromRawValue', cname='NDT_getFloatFromRawValue', self='NDT'),
        dict(file=DT_CPP, name='NumberDataType::calcPrecision', cname='NDT_calcPrecision', self=None),
        dict(_inl, name='isAdjustableLength', cname='DataType_isAdjustableLength', static=True),
        dict(file=DT_CPP, name='NumberDataType::derive', sig='unsigned int min, unsigned int max', cname='NDT_derive_range', self='NDT', params_c=['unsigned int min', 'unsigned int max', 'unsigned int inc', 'const NDT** derived'],
             pre_subs=[(r'ostringstream str;.*?DataTypeList::getInstance\(\)->add\(\*derived, key\);\s*\}', 'env_new_type_range(self, min, max, inc, derived);', 1)]),
        dict(file=DT_CPP, name='NumberDataType::derive', sig='int divisor, size_t bitCount', cname='NDT_derive', self='NDT', params_c=['int divisor', 'size_t bitCount', 'const NDT** derived'],
             pre_subs=[(r'ostringstream str;.*?DataTypeList::getInstance\(\)->add\(\*derived, key\);\s*\}', 'env_new_type(self, bitCount, divisor, derived);', 1)],
             cfg=dict(own_methods={'isAdjustableLength': ('DataType_isAdjustableLength', 'self')}, text_subs=[(r'\(\*derived\) = self;', '*derived = self;')])),
    ],
    runs=[],
)


def R(id, entry, enforce=None, replace=(), loops=False, props=('C05', 'C20'), **kw):
    d = dict(id=id, entry=entry, enforce=enforce, replace=list(replace), loops=loops, props=list(props))
    d.update(kw)
    UNIT['runs'].append(d)

R('checkValueRange', 'h_checkValueRange', 'NDT_checkValueRange', props=('C05', 'C07', 'C20'), cost=10)
# binary and bit types, 1-byte BCD: DFCC with symbolic flags; multi-byte BCD/HCD: harness-enforced (B2) per concrete flag word,
# because division/multiplication by a flag-dependent power of 100 does not finish symbolically
_BCD, _REV, _REQ, _HCD = 0x02, 0x04, 0x40, 0x80
for _l in (1, 2, 3, 4):
    R('readRawValue_bin_len%d' % _l, 'h_readRawValue', 'NDT_readRawValue', ['SymbolString_getDataSize', 'SymbolString_dataAt'], unwind=5,
      defines=['CASE_BCD=0', 'CASE_LEN=%d' % _l], props=('C05', 'C10', 'C20'), cost=20)
    R('writeRawValue_bin_len%d' % _l, 'h_writeRawValue_b2', None, unwind=5, unwindset={'vsym_resize.0': SS_CAP + 1},
      defines=['CASE_BCD=0', 'CASE_LEN=%d' % _l], props=('C06', 'C10', 'C20'), cost=60 + 20 * _l)
    for _f in range(8):
        _fl = _BCD | (_REV if _f & 1 else 0) | (_REQ if _f & 2 else 0) | (_HCD if _f & 4 else 0)
        # measured: BCD read len 2 ~50 s, len 3 ~1000 s, len 4 ~1200 s; BCD write len >= 3 did not finish in 3000 s
        # (division by powers of 100) and is therefore NOT claimed (DESIGN.md 5, C06 residue)
        # with kissat as back end the 3 and 4 byte BCD reads finish in 30-50 s (MiniSat: 1000-3000 s)
        R('readRawValue_bcd_f%02x_len%d' % (_fl, _l), 'h_readRawValue_b2', None, unwind=5, timeout=1800, solver='kissat',
          defines=['CASE_FLAGS=0x%x' % _fl, 'CASE_LEN=%d' % _l], props=('C05', 'C10', 'C20'), cost=60, tier='quick' if _f in (0, 5) else 'thorough')
        # retried with kissat: BCD write of 2 bytes finishes (~300 s), 3 bytes did not finish within 40 minutes and stays unclaimed
        if _l == 2 and _f in (0, 5):
            R('writeRawValue_bcd_f%02x_len%d' % (_fl, _l), 'h_writeRawValue_b2', None, unwind=5, unwindset={'vsym_resize.0': SS_CAP + 1}, solver='kissat', timeout=3000,
              defines=['CASE_FLAGS=0x%x' % _fl, 'CASE_LEN=%d' % _l], props=('C06', 'C10', 'C20'), cost=1000, tier='thorough')
        if _l == 1:
            R('writeRawValue_bcd_f%02x_len%d' % (_fl, _l), 'h_writeRawValue_b2', None, unwind=5, unwindset={'vsym_resize.0': SS_CAP + 1},
              defines=['CASE_FLAGS=0x%x' % _fl, 'CASE_LEN=%d' % _l], props=('C06', 'C10', 'C20'), cost=40, tier='quick' if _f in (0, 5) else 'thorough')
for _c, _n in ((0, 'int'), (3, 'exp')):
    R('parseInput_' + _n, 'h_parseInput', 'NDT_parseInput', ['NDT_checkValueRange'], defines=['CASE_PI=%d' % _c], props=('C07', 'C12', 'C20'), cost=100)
    R('parseInput_b2_' + _n, 'h_parseInput_b2', None, defines=['CASE_PI=%d' % _c], props=('C07', 'C12', 'C20'), cost=100, tier='thorough')
# fixed point: one run per divisor of the property's quantifier {built-in 2,16,256,1000; +-10^k}; the floating point
# multiplication/division by a symbolic divisor does not finish, a concrete divisor does (harness-enforced, B2)
_QUICK_DIVS = (10, 256, -10, 1000)     # kissat: 40-60 s per divisor (MiniSat: 250-400 s)
# the time grows with the magnitude (10^7: 600-800 s, 10^8: 1500 s, 10^9 and multipliers beyond 10^6: no result within 1800 s with either back end);
# divisors up to 10^7 and multipliers up to 10^5 are claimed, the larger ones are not
for _d in [2, 16, 256] + [10 ** k for k in range(1, 8)] + [-(10 ** k) for k in range(1, 6)]:
    R('parseInput_fix_div%s' % str(_d).replace('-', 'm'), 'h_parseInput_b2', None, defines=['CASE_PI=%d' % (1 if _d > 0 else 2), 'CASE_DIV=%d' % _d],
      props=('C07', 'C12', 'C20'), cost=80, solver='kissat', timeout=3000, tier='quick' if _d in _QUICK_DIVS else 'thorough')
for _b in (0, 1):
    for _l in (1, 2, 3, 4):
        if (_b, _l) != (1, 4):   # BCD 4 bytes: did not finish in 3000 s
            R('roundtrip_bcd%d_len%d' % (_b, _l), 'h_roundtrip', None, defines=['CASE_BCD=%d' % _b, 'CASE_LEN=%d' % _l], unwind=5, props=('C06',), cost=10 if (_b, _l) != (1, 3) else 60)
R('calcPrecision', 'h_calcPrecision', 'NDT_calcPrecision', unwind=12, props=('C05', 'C20'), cost=2)
for _b in (1, 2, 16, 256, 1000, -10):
    R('derive_base%s' % str(_b).replace('-', 'm'), 'h_derive', None, unwind=12, defines=['CASE_BASEDIV=%d' % _b], props=('C07', 'C20'), cost=30, solver='kissat')
R('derive_range', 'h_derive_range', None, unwind=12, props=('C07', 'C20'), cost=30)
R('type_table', 'h_type_table', None, unwind=70, props=('C05', 'C07', 'C20'), cost=20)
