/* unit sendwait: retry policy of ProtocolHandler::sendAndWait (C02 / C04: result hand-over to the caller and retry on failure).  Back end B2. */
#include "vbase.h"
#include "vvec.h"
#include "gen_types.h"
struct config { unsigned failedSendRetries; };
struct PH { struct config m_config; _Bool signal; };
struct ABR { const SymbolString* master; SymbolString* slave; result_t m_result; unsigned m_busLostRetries; };
static inline void SymbolString_clear(SymbolString* s) { s->m_data.n = 0; }
static inline _Bool PH_hasSignal(const struct PH* h) { return h->signal; }
static inline struct ABR env_new_request(const SymbolString* m, SymbolString* s) { struct ABR r; r.master = m; r.slave = s; r.m_result = RESULT_ERR_NO_SIGNAL; r.m_busLostRetries = 0; return r; }
/* one submission to the bus thread: the request is completed exactly once with some result (C04, proved in unit handler), or the submission fails */
#define ATT 6
unsigned g_attempts; int g_submit_result[ATT], g_bus_result[ATT]; unsigned g_retries_seen[ATT]; const SymbolString* g_master;
static inline result_t PH_addRequest(struct PH* h, struct ABR* r, _Bool wait) {
  __CPROVER_assert(wait && r->master == g_master, "[C02] the request carries the caller's master part and is waited for");
  unsigned k = g_attempts < ATT ? g_attempts : 0;
  __CPROVER_assert(g_attempts < ATT, "model capacity: attempts");
  g_retries_seen[k] = r->m_busLostRetries;
  g_attempts = g_attempts + 1;
  if (g_submit_result[k] == RESULT_OK) { r->m_result = (result_t)g_bus_result[k]; r->m_busLostRetries = nondet_uint(); }
  return (result_t)g_submit_result[k];
}
#include "gen_protos.h"
#include "gen_funcs.inc"

SymbolString nondet_SS(void);
static inline _Bool fatal(int r) { return r == RESULT_ERR_NO_SIGNAL || r == RESULT_ERR_SEND || r == RESULT_ERR_DEVICE; }
void h_send_and_wait(void) {
  struct PH h; SymbolString master = nondet_SS(), slave = nondet_SS(); g_attempts = 0; g_master = &master;
  h.m_config.failedSendRetries = nondet_uint(); h.signal = nondet_bool();
  __CPROVER_assume(h.m_config.failedSendRetries <= 4 && master.m_data.n <= SS_CAP && slave.m_data.n <= SS_CAP);
  for (int k = 0; k < ATT; k++) { g_submit_result[k] = nondet_int(); g_bus_result[k] = nondet_int(); __CPROVER_assume(g_submit_result[k] <= 0 && g_submit_result[k] >= -30 && g_bus_result[k] <= 0 && g_bus_result[k] >= -30); }
  result_t r = PH_sendAndWait(&h, &master, &slave);
  if (!h.signal) { __CPROVER_assert(r == RESULT_ERR_NO_SIGNAL && g_attempts == 0, "[C02] without signal nothing is submitted"); }
  else {
    __CPROVER_assert(g_attempts >= 1 && g_attempts <= h.m_config.failedSendRetries + 1, "[C02] the request is submitted at least once and at most 1 + failedSendRetries times");
    unsigned last = g_attempts - 1;
    int last_result = g_submit_result[last < ATT ? last : 0] == RESULT_OK ? g_bus_result[last < ATT ? last : 0] : g_submit_result[last < ATT ? last : 0];
    __CPROVER_assert(r == last_result, "[C02] the caller gets the result of the last exchange on the bus (OK only if that exchange was valid)");
    unsigned k = nondet_uint(); __CPROVER_assume(k < last && k < ATT);
    __CPROVER_assert(g_submit_result[k] == RESULT_OK && g_bus_result[k] != RESULT_OK && !fatal(g_bus_result[k]), "[C02] another attempt is only made after a failed exchange that is worth repeating (not after success, no signal, send or device errors)");
    __CPROVER_assert(g_retries_seen[(k + 1) < ATT ? k + 1 : 0] == 0, "[C02,C04] every new attempt starts with a fresh bus-lost retry counter");
    if (last_result != RESULT_OK && g_submit_result[last < ATT ? last : 0] == RESULT_OK && !fatal(last_result)) { __CPROVER_assert(g_attempts == h.m_config.failedSendRetries + 1, "[C02] a repeatable failure is retried until the configured number of attempts is used up"); }
    if (g_attempts == 3 && r == RESULT_OK) { CANARY("success at the third attempt"); }
    if (g_attempts == 2 && r != RESULT_OK && g_submit_result[1] != RESULT_OK) { CANARY("submission failure gives up"); }
  }
}
