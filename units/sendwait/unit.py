PROTO_CPP = 'src/lib/ebus/protocol.cpp'
SYM_H = 'src/lib/ebus/symbol.h'

UNIT = dict(
    trusted=['the queues and the bus thread are an environment stub: addRequest(request, wait) returns after the request was completed with an arbitrary result (or with an error without completion); thread schedules and the blocking wait itself are not analysed',
             'SymbolString::clear / operator[] are deterministic stubs mirroring model/ss_contracts.h'],
    enums=[('src/lib/ebus/result.h', 'result_t'), (SYM_H, 'PredefinedSymbol', 'PredefinedSymbol', 'symbol_t')],
    structs=[dict(file=SYM_H, classes=['SymbolString'], cname='SymbolString', member_types={'m_data': 'vsym'}, is_self=False)],
    cfg=dict(
        type_map={'MasterSymbolString': 'SymbolString', 'SlaveSymbolString': 'SymbolString'},
        members={'m_config'},
        methods={'clear': 'SymbolString_clear'},
        own_methods={'hasSignal': ('PH_hasSignal', 'self'), 'addRequest': ('PH_addRequest', 'self')},
        text_subs=[(r'env_new_request\(\(\*master\), slave\)', 'env_new_request(master, slave)')],
    ),
    functions=[
        dict(file=PROTO_CPP, name='ProtocolHandler::sendAndWait', cname='PH_sendAndWait', self='struct PH',
             pre_subs=[(r'ActiveBusRequest request\(master, slave\);', 'struct ABR request = env_new_request(master, slave);', 1)]),
    ],
    runs=[],
)


def R(id, entry, enforce=None, replace=(), loops=False, props=('C02', 'C04', 'C20'), **kw):
    d = dict(id=id, entry=entry, enforce=enforce, replace=list(replace), loops=loops, props=list(props))
    d.update(kw)
    UNIT['runs'].append(d)

R('send_and_wait', 'h_send_and_wait', None, unwind=8, defines=['SS_CAP=8'], cost=10)
