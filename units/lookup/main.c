/* unit lookup: message keys and MessageMap::find(master, ...) (C08, C20).  Back end B2 (harness-enforced). */
#include "vbase.h"
#include "vvec.h"
#include "gen_types.h"
#include "ss_stubs.h"
static inline size_t SymbolString_getDataSize(const SymbolString* self) {
  size_t lo = self->m_isMaster ? 4 : 0;
  if (self->m_data.n <= lo) return 0;
  size_t ret = self->m_data.d[lo];
  return self->m_data.n < lo + 1 + ret ? self->m_data.n - lo - 1 : ret;
}
static inline symbol_t SymbolString_dataAt(const SymbolString* self, size_t index) {
  size_t off = (self->m_isMaster ? 5 : 1) + index;
  return off < self->m_data.n ? self->m_data.d[off < SS_CAP ? off : 0] : 0;
}
#include "sym_spec.h"

struct Message { vsym m_id; _Bool m_isWrite, m_isPassive; symbol_t m_srcAddress, m_dstAddress; _Bool available; };
struct MessageMap { size_t m_maxIdLength, m_maxBroadcastIdLength; struct Message* m_scanMessage; int m_messagesByKey; };
static inline size_t Message_getIdLength(const struct Message* m) { return m->m_id.n - 2; }
static inline symbol_t Message_getDstAddress(const struct Message* m) { return m->m_dstAddress; }
struct MessageMap; struct Message* g_stored_msg; uint64_t g_stored_key; unsigned g_store_calls;
static inline void env_store_by_key(struct MessageMap* mm, uint64_t key, struct Message* m) { g_stored_msg = m; g_stored_key = key; g_store_calls = g_store_calls + 1; }
typedef uint64_t mmap_it;
static inline mmap_it mmap_find(const int* map, uint64_t key) { return key; }

/* ---------------- specification (from the property statement and the key description in message.h) ---------------- */
/* further id bytes (after PB SB) are XOR-folded into the four low bytes, first byte in the highest lane */
static inline uint64_t spec_fold(const symbol_t* b, size_t n) {
  uint64_t k = 0;
  for (size_t i = 0; i < 8; i++) { if (i < n) k ^= (uint64_t)b[i] << (8 * (3 - (i % 4))); }
  return k;
}
#define SRC_ACTIVE_WRITE 0x1fu
#define SRC_ACTIVE_READ 0x1eu
static inline uint64_t spec_defkey(const struct Message* d) {
  size_t idlen = d->m_id.n - 2;
  unsigned srcclass = d->m_isPassive ? spec_master_number(d->m_srcAddress) : (d->m_isWrite ? SRC_ACTIVE_WRITE : SRC_ACTIVE_READ);
  return ((uint64_t)idlen << 61) | ((uint64_t)srcclass << 56) | ((uint64_t)d->m_dstAddress << 48) | ((uint64_t)d->m_id.d[0] << 40) | ((uint64_t)d->m_id.d[1] << 32)
       ^ spec_fold(&d->m_id.d[2], idlen);
}
static inline uint64_t spec_telkey(const SymbolString* t, size_t len, unsigned srcclass, _Bool anyDst) {
  return ((uint64_t)len << 61) | ((uint64_t)srcclass << 56) | ((uint64_t)(anyDst ? 0xAA : t->m_data.d[1]) << 48) | ((uint64_t)t->m_data.d[2] << 40) | ((uint64_t)t->m_data.d[3] << 32)
       ^ spec_fold(&t->m_data.d[5], len);
}
#define DEF_OK(d) ((d)->m_id.n >= 2 && (d)->m_id.n <= 9)          /* PB SB + id of 0..7 bytes (3 bit length field) */
#define TEL_OK(t) ((t)->m_isMaster && (t)->m_data.n >= 5 && (t)->m_data.n <= SS_CAP && (t)->m_data.n == 5 + (size_t)(t)->m_data.d[4])
/* the definition matches the telegram for the requested directions */
static inline _Bool spec_matches(const struct Message* d, const SymbolString* t, _Bool anyDst, _Bool withRead, _Bool withWrite, _Bool withPassive) {
  size_t idlen = d->m_id.n - 2;
  if (d->m_dstAddress != (anyDst ? 0xAA : t->m_data.d[1])) return 0;
  if (d->m_id.d[0] != t->m_data.d[2] || d->m_id.d[1] != t->m_data.d[3]) return 0;
  if (idlen > (size_t)t->m_data.d[4]) return 0;
  for (size_t i = 0; i < 7; i++) { if (i < idlen && d->m_id.d[2 + i] != t->m_data.d[5 + i]) return 0; }
  if (d->m_isPassive) return withPassive && (spec_master_number(d->m_srcAddress) == 0 || spec_master_number(d->m_srcAddress) == spec_master_number(t->m_data.d[0]));
  return d->m_isWrite ? withWrite : withRead;
}

/* ---------------- environment of find: the message map ---------------- */
struct Message g_D; _Bool g_D_present; struct Message g_cand; unsigned g_probes; struct Message* g_first_hit; uint64_t g_hit_key;
#include "gen_protos.h"
struct Message nondet_Message(void);
struct Message* MM_getFirstAvailableFromIterator(const struct MessageMap* self, mmap_it key, const SymbolString* sameIdExtAs, _Bool onlyAvailable) {
  g_probes = g_probes + 1;
  struct Message* r = NULL;
  _Bool tracked_here = g_D_present && Message_createKey_def(&g_D.m_id, g_D.m_isWrite, g_D.m_isPassive, g_D.m_srcAddress, g_D.m_dstAddress) == key
                       && Message_checkId(&g_D, sameIdExtAs, NULL) && (g_D.available || !onlyAvailable);
  if (nondet_bool()) {                  /* some other definition stored under this key, passing the exact id check */
    g_cand = nondet_Message();
    __CPROVER_assume(DEF_OK(&g_cand) && Message_createKey_def(&g_cand.m_id, g_cand.m_isWrite, g_cand.m_isPassive, g_cand.m_srcAddress, g_cand.m_dstAddress) == key);
    __CPROVER_assume(Message_checkId(&g_cand, sameIdExtAs, NULL) && (g_cand.available || !onlyAvailable));
    r = &g_cand;
  } else if (tracked_here) r = &g_D;
  if (r != NULL && g_first_hit == NULL) { g_first_hit = r; g_hit_key = key; }
  return r;
}
#include "gen_funcs.inc"

/* ---------------- harnesses ---------------- */
SymbolString nondet_SS(void);
void h_key_def(void) {
  struct Message d = nondet_Message();
  __CPROVER_assume(DEF_OK(&d));
  uint64_t k = Message_createKey_def(&d.m_id, d.m_isWrite, d.m_isPassive, d.m_srcAddress, d.m_dstAddress);
  __CPROVER_assert(k == spec_defkey(&d), "[C08] key of a definition: id length, source class, destination, PB, SB, XOR-folded id bytes");
  CANARY("def key");
}
void h_key_master(void) {
  SymbolString t = nondet_SS(); size_t maxlen = nondet_size(); _Bool any = nondet_bool();
  __CPROVER_assume(t.m_isMaster && t.m_data.n <= SS_CAP && maxlen <= 7);
  uint64_t k = Message_createKey_master(&t, maxlen, any);
  if (t.m_data.n < 5) { __CPROVER_assert(k == INVALID_KEY, "[C08] a telegram without complete header has no key"); }
  else {
    size_t ds = SymbolString_getDataSize(&t); size_t len = maxlen < ds ? maxlen : ds;
    __CPROVER_assert(k == spec_telkey(&t, len, spec_master_number(t.m_data.d[0]), any), "[C08] key of a telegram for the longest id length allowed");
    CANARY("telegram key");
  }
}
/* lemmas over the two key specifications: a matching definition has the probe key of its own id length and source class;
   equal keys agree on everything except id bytes beyond the fold (which checkId compares exactly) */
void h_key_lemmas(void) {
  struct Message d = nondet_Message(); SymbolString t = nondet_SS(); _Bool any = nondet_bool(), wr = nondet_bool(), ww = nondet_bool(), wp = nondet_bool();
  __CPROVER_assume(DEF_OK(&d) && TEL_OK(&t));
  size_t idlen = d.m_id.n - 2;
  if (spec_matches(&d, &t, any, wr, ww, wp)) {
    unsigned cls = d.m_isPassive ? spec_master_number(d.m_srcAddress) : (d.m_isWrite ? SRC_ACTIVE_WRITE : SRC_ACTIVE_READ);
    __CPROVER_assert(spec_defkey(&d) == spec_telkey(&t, idlen, cls, any), "[C08] a matching definition is stored under the key probed for its id length and source class");
    CANARY("match");
  }
  unsigned cls2 = nondet_uint(); size_t len2 = nondet_size();
  __CPROVER_assume(cls2 <= 0x1f && len2 <= 7 && len2 <= (size_t)t.m_data.d[4]);
  if (spec_defkey(&d) == spec_telkey(&t, len2, cls2, any)) {
    __CPROVER_assert(idlen == len2 && d.m_dstAddress == (any ? 0xAA : t.m_data.d[1]) && d.m_id.d[0] == t.m_data.d[2] && d.m_id.d[1] == t.m_data.d[3],
                     "[C08] equal keys agree on id length, destination, PB and SB");
    CANARY("equal keys");
  }
}
struct MessageMap nondet_MM(void);
void h_find(void) {
  struct MessageMap mm = nondet_MM(); struct Message scan; SymbolString t = nondet_SS();
  _Bool any = nondet_bool(), wr = nondet_bool(), ww = nondet_bool(), wp = nondet_bool(), only = nondet_bool();
  g_D = nondet_Message(); g_D_present = nondet_bool(); g_probes = 0; g_first_hit = NULL; mm.m_scanMessage = &scan;
  __CPROVER_assume(DEF_OK(&g_D) && TEL_OK(&t) && mm.m_maxIdLength <= 7 && mm.m_maxBroadcastIdLength <= mm.m_maxIdLength);
  /* invariant established by MessageMap::add: the longest id length (per destination class) covers every stored definition */
  __CPROVER_assume(!g_D_present || (g_D.m_id.n - 2 <= mm.m_maxIdLength && (g_D.m_dstAddress != 0xFE || g_D.m_id.n - 2 <= mm.m_maxBroadcastIdLength)));
  struct Message* r = MM_find(&mm, &t, any, wr, ww, wp, only);
  if (r == &scan) { __CPROVER_assert(any && t.m_data.d[4] == 0 && t.m_data.d[2] == 0x07 && t.m_data.d[3] == 0x04, "[C08] the scan message is returned only for the ident telegram 0704 with any destination"); CANARY("scan"); }
  else if (r != NULL) {
    __CPROVER_assert(r == g_first_hit, "[C08] the first hit of the descending id length probe is returned");
    __CPROVER_assert(spec_matches(r, &t, any, wr, ww, wp), "[C08] a returned definition matches destination, PB/SB, all id bytes, source restriction and requested direction");
    __CPROVER_assert(r->available || !only, "[C08] only available definitions are returned when asked so");
    CANARY("found");
  }
  if (g_D_present && spec_matches(&g_D, &t, any, wr, ww, wp) && (g_D.available || !only) && !(any && t.m_data.d[4] == 0 && t.m_data.d[2] == 0x07 && t.m_data.d[3] == 0x04)) {
    __CPROVER_assert(r != NULL, "[C08] if a loaded, available definition matches, some definition is returned");
    __CPROVER_assert(r == NULL || r->m_id.n >= g_D.m_id.n, "[C08] the returned definition has the longest matching id (at least as long as any matching one)");
    CANARY("tracked definition matches");
  }
  if (g_probes > 20) { CANARY("many probes"); }
}

/* the invariant find() relies on is established and preserved by MessageMap::add: after adding a definition the longest id length (per destination
   class) covers it, and still covers every definition added before */
#define COVERED(mm, d) ((d)->m_id.n - 2 <= (mm)->m_maxIdLength && ((d)->m_dstAddress != 0xFE || (d)->m_id.n - 2 <= (mm)->m_maxBroadcastIdLength))
void h_add_bookkeeping(void) {
  struct MessageMap mm = nondet_MM(); struct Message old = nondet_Message(), m = nondet_Message(); uint64_t key = nondet_ulong(); g_store_calls = 0;
  __CPROVER_assume(DEF_OK(&old) && DEF_OK(&m) && mm.m_maxIdLength <= 7 && mm.m_maxBroadcastIdLength <= mm.m_maxIdLength && COVERED(&mm, &old));
  result_t r = MM_add_tail(&mm, &m, key);
  __CPROVER_assert(r == RESULT_OK && g_store_calls == 1 && g_stored_msg == &m && g_stored_key == key, "[C08] the definition is stored under the key it was added with");
  __CPROVER_assert(COVERED(&mm, &m), "[C08] the longest id length (overall and for broadcast definitions) covers the added definition: find() probes it whatever was added before");
  __CPROVER_assert(COVERED(&mm, &old), "[C08] ... and still covers every definition added before");
  __CPROVER_assert(mm.m_maxBroadcastIdLength <= mm.m_maxIdLength && mm.m_maxIdLength <= 7, "[C08] the bookkeeping stays within the id length range");
  if (m.m_dstAddress == 0xFE && m.m_id.n - 2 == 3 && old.m_id.n - 2 == 5) { CANARY("broadcast definition after a longer one"); }
}
