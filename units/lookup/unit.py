MSG_CPP = 'src/lib/ebus/message.cpp'
MSG_H = 'src/lib/ebus/message.h'
SYM_H = 'src/lib/ebus/symbol.h'

UNIT = dict(
    trusted=['std::map<uint64_t, vector<Message*>> is abstracted: a probe of key k yields a message whose own definition key equals k (bucket invariant established by MessageMap::add, not verified here) and for which the real checkId holds; a tracked definition is present under its key',
             'SymbolString accessors: deterministic stubs mirroring model/ss_contracts.h; getMasterNumber/isMaster: real extracted bodies'],
    defines=[(MSG_CPP, ['ID_SOURCE_MASK', 'ID_LENGTH_AND_IDS_MASK', 'ID_SOURCE_ACTIVE_WRITE', 'ID_SOURCE_ACTIVE_READ', 'ID_SOURCE_ACTIVE_WRITE_MASTER', 'ID_SOURCE_ACTIVE_READ_MASTER', 'INVALID_KEY'])],
    enums=[('src/lib/ebus/result.h', 'result_t'), (SYM_H, 'PredefinedSymbol', 'PredefinedSymbol', 'symbol_t')],
    structs=[dict(file=SYM_H, classes=['SymbolString'], cname='SymbolString', member_types={'m_data': 'vsym'}, is_self=False)],
    cfg=dict(
        type_map={'MasterSymbolString': 'SymbolString', 'Message': 'struct Message', 'vector<symbol_t>': 'vsym'},
        members={'m_id', 'm_maxIdLength', 'm_maxBroadcastIdLength', 'm_scanMessage', 'm_messagesByKey'},
        ranges={'(*id)': ('symbol_t', 'vsym_size', 'vsym_get')},
        methods={'size': [(r'^(id|m_id|self->m_id)$', 'vsym_size'), (r'^master$', 'SymbolString_size')], 'getDataSize': 'SymbolString_getDataSize', 'dataAt': 'SymbolString_dataAt',
                 'find': 'mmap_find'},
        index=[(r'^master$', 'SymbolString_at'), (r'^m_id$', 'vsym_get')],
        own_methods={'getIdLength': ('Message_getIdLength', 'self'), 'getFirstAvailableFromIterator': ('MM_getFirstAvailableFromIterator', 'self')},
        static_calls={'Message::createKey': 'Message_createKey_master'},
        text_subs=[(r'for \(size_t _i_it = 0; _i_it < vsym_size\(&id\)', 'for (size_t _i_it = 0; _i_it < vsym_size(id)'), (r'symbol_t it = vsym_get\(&id,', 'symbol_t it = vsym_get(id,'),
                   (r'&\(\*master\)', 'master'), (r'Message_createKey_master\(\(\*master\)', 'Message_createKey_master(master')],
    ),
    functions=[
        dict(file='src/lib/ebus/symbol.cpp', name='getMasterPartIndex', cname='getMasterPartIndex', self=None),
        dict(file='src/lib/ebus/symbol.cpp', name='isMaster', cname='isMaster', self=None),
        dict(file='src/lib/ebus/symbol.cpp', name='getMasterNumber', cname='getMasterNumber', self=None),
        dict(file=MSG_CPP, name='Message::createKey', sig='const vector<symbol_t>& id', cname='Message_createKey_def', self=None,
             cfg=dict(ranges={'id': ('symbol_t', 'vsym_size', 'vsym_get')})),
        dict(file=MSG_CPP, name='Message::createKey', sig='const MasterSymbolString& master', nth=0, cname='Message_createKey_master', self=None),
        dict(file=MSG_CPP, name='Message::checkId', sig='const MasterSymbolString& master', cname='Message_checkId', self='struct Message'),
        dict(file=MSG_CPP, name='MessageMap::find', sig='const MasterSymbolString& master', cname='MM_find', self='struct MessageMap'),
        # the id length bookkeeping at the end of MessageMap::add (fragment, rule R16): establishes the invariant the probe loop of find relies on
        dict(file=MSG_CPP, name='MessageMap::add', cname='MM_add_tail', self='struct MessageMap', ret='result_t', params_c=['struct Message* message', 'uint64_t key'],
             fragment=dict(start=r'size_t idLength = message->getIdLength\(\);', end=r'\}\s*$'),
             pre_subs=[(r'm_messagesByKey\[key\]\.push_back\(message\);', 'env_store_by_key(self, key, message);', 1)],
             cfg=dict(methods={'getIdLength': 'Message_getIdLength', 'getDstAddress': 'Message_getDstAddress'})),
    ],
    runs=[],
)


def R(id, entry, enforce=None, replace=(), loops=False, props=('C08', 'C20'), **kw):
    d = dict(id=id, entry=entry, enforce=enforce, replace=list(replace), loops=loops, props=list(props))
    d.update(kw)
    UNIT['runs'].append(d)

R('key_def', 'h_key_def', None, unwind=12, defines=['SS_CAP=32'], cost=10)
R('key_master', 'h_key_master', None, unwind=10, defines=['SS_CAP=32'], cost=10)
R('key_lemmas', 'h_key_lemmas', None, unwind=10, defines=['SS_CAP=32'], cost=30)
R('find', 'h_find', None, unwind=10, defines=['SS_CAP=32'], cost=120, timeout=1500)
R('add_bookkeeping', 'h_add_bookkeeping', None, unwind=10, defines=['SS_CAP=32'], cost=10)
