DT_CPP = 'src/lib/ebus/device_trans.cpp'
DT_H = 'src/lib/ebus/device_trans.h'
DE_H = 'src/lib/ebus/device_enhanced.h'
DEV_H = 'src/lib/ebus/device.h'
TR_CPP = 'src/lib/ebus/transport.cpp'
TR_H = 'src/lib/ebus/transport.h'
SYM_H = 'src/lib/ebus/symbol.h'

_OSS1 = r'if \(m_listener != nullptr\) \{\s*ostringstream stream;\s*stream << \(cmd == ENH_RES_ERROR_EBUS.*?m_listener->notifyDeviceStatus\(true, str\.c_str\(\)\);\s*\}'
_OSS2 = r'if \(m_listener != nullptr\) \{\s*ostringstream stream;\s*stream << "unexpected enhanced command.*?m_listener->notifyDeviceStatus\(true, str\.c_str\(\)\);\s*\}'


def _replay(run, inputs, rp, repo, verif):
    import replay
    exe = replay.build('device', ['src/lib/ebus/device_trans.cpp', 'src/lib/ebus/transport.cpp', 'src/lib/ebus/symbol.cpp', 'src/lib/ebus/result.cpp',
                                  'src/lib/utils/clock.cpp', 'src/lib/utils/tcpsocket.cpp'], repo, verif)
    return replay.run(exe, [run['id']])


UNIT = dict(
    replay=_replay,
    trusted=['Transport::write/read/readConsumed/close, DeviceListener and the clock are environment stubs when verifying the devices; ::read/ppoll/memmove are stubs when verifying FileTransport',
             'diagnostic message texts (ostringstream formatting) are replaced by fixed tokens at extraction (pre_subs, counted)',
             'EnhancedDevice::notifyInfoRetrieved and requestEnhancedInfo are stubs with asserted preconditions (info buffer bounds)'],
    defines=[(DE_H, None, ())],
    enums=[('src/lib/ebus/result.h', 'result_t'), (SYM_H, 'PredefinedSymbol', 'PredefinedSymbol', 'symbol_t'), (DEV_H, 'ArbitrationState')],
    structs=[dict(parts=[(DT_H, 'BaseDevice'), (DT_H, 'EnhancedDevice')], cname='EDEV',
                  skip=('m_enhInfoVersion', 'm_enhInfoId', 'm_enhInfoTemperature', 'm_enhInfoSupplyVoltage', 'm_enhInfoBusVoltage'),
                  member_types={'m_transport': 'struct Transport*', 'm_infoBuf': 'symbol_t'},
                  extra=['struct DeviceListener* m_listener;']),
             dict(parts=[(TR_H, 'Transport'), (TR_H, 'FileTransport')], cname='FTR', is_self=False,
                  member_types={'m_listener': 'struct TransportListener*'})],
    cfg=dict(
        type_map={},
        members={'m_listener'},
        methods={
            'write': 'Transport_write', 'read': 'Transport_read', 'readConsumed': 'Transport_readConsumed', 'getLatency': 'Transport_getLatency', 'close': 'Transport_close',
            'notifyDeviceStatus': 'DevListener_notifyDeviceStatus', 'notifyDeviceData': 'DevListener_notifyDeviceData',
        },
        own_methods={'cancelRunningArbitration': ('EDEV_cancelRunningArbitration', 'self'), 'requestEnhancedInfo': ('EDEV_requestEnhancedInfo', 'self'),
                     'notifyInfoRetrieved': ('EDEV_notifyInfoRetrieved', 'self'), 'handleEnhancedBufferedData': ('EDEV_handleEnhancedBufferedData', 'self')},
        static_calls={'BaseDevice::cancelRunningArbitration': ('BaseDevice_cancelRunningArbitration', 'self')},
        text_subs=[(r'time\(NULL\)', 'env_time()'), (r'sizeof\(self->m_infoBuf\)', '(sizeof(self->m_infoBuf))')],
    ),
    functions=[
        dict(file=DT_CPP, name='BaseDevice::startArbitration', cname='BaseDevice_startArbitration', self='EDEV'),
        dict(file=DT_CPP, name='BaseDevice::cancelRunningArbitration', cname='BaseDevice_cancelRunningArbitration', self='EDEV'),
        dict(file=DT_CPP, name='PlainDevice::send', cname='PlainDevice_send', self='EDEV'),
        dict(file=DT_CPP, name='PlainDevice::recv', cname='PlainDevice_recv', self='EDEV',
             cfg=dict(own_methods={'cancelRunningArbitration': ('BaseDevice_cancelRunningArbitration', 'self')})),
        dict(file=DT_CPP, name='EnhancedDevice::send', cname='EDEV_send', self='EDEV'),
        dict(file=DT_CPP, name='EnhancedDevice::recv', cname='EDEV_recv', self='EDEV'),
        dict(file=DT_CPP, name='EnhancedDevice::startArbitration', cname='EDEV_startArbitration', self='EDEV'),
        dict(file=DT_CPP, name='EnhancedDevice::cancelRunningArbitration', cname='EDEV_cancelRunningArbitration', self='EDEV'),
        dict(file=DT_CPP, name='EnhancedDevice::handleEnhancedBufferedData', cname='EDEV_handleEnhancedBufferedData', self='EDEV',
             pre_subs=[(_OSS1, 'if (m_listener != nullptr) { m_listener->notifyDeviceStatus(true, cmd == ENH_RES_ERROR_EBUS ? "eBUS comm error" : "host comm error"); }', 1),
                       (_OSS2, 'if (m_listener != nullptr) { m_listener->notifyDeviceStatus(true, "unexpected enhanced command"); }', 1),
                       (r'm_enhInfo(Temperature|SupplyVoltage|BusVoltage) = "";', ';', 3)]),
    ],
    runs=[],
)
UNIT['functions'] += [
    dict(file=TR_CPP, name='FileTransport::read', cname='FTR_read', self='FTR',
         cfg=dict(members={'m_name', 'm_latency', 'm_listener', 'm_checkDevice', 'm_fd', 'm_buffer', 'm_bufSize', 'm_bufLen'},
                  own_methods={'isValid': ('FTR_isValid', 'self'), 'close': ('FTR_close', 'self')},
                  methods={'notifyTransportMessage': 'TrListener_notifyTransportMessage'}, drop_calls=['DEBUG_RAW_TRAFFIC'],
                  text_subs=[(r'::read\(', 'env_read('), (r'\bssize_t\b', 'long')]),
         pre_subs=[(r'nfds_t nfds = 1;.*?ret = -1;\s*\}', 'ret = env_ppoll(m_fd, &tdiff);', 1)]),
    dict(file=TR_CPP, name='FileTransport::readConsumed', cname='FTR_readConsumed', self='FTR',
         cfg=dict(members={'m_name', 'm_latency', 'm_listener', 'm_checkDevice', 'm_fd', 'm_buffer', 'm_bufSize', 'm_bufLen'}, drop_calls=['DEBUG_RAW_TRAFFIC'],
                  text_subs=[(r'\bmemmove\(', 'env_memmove(')])),
]



def R(id, entry, enforce=None, replace=(), loops=False, props=('C14', 'C20'), **kw):
    d = dict(id=id, entry=entry, enforce=enforce, replace=list(replace), loops=loops, props=list(props))
    d.update(kw)
    UNIT['runs'].append(d)

R('enh_decode_len6', 'h_enh_decode', None, unwind=34, defines=['DEC_MAXLEN=6'], props=('C14', 'C20'), cost=300, timeout=1500,
  bounded='buffer length <= 6 bytes per call (the transport buffer holds up to 32)')
R('enh_decode_len8', 'h_enh_decode', None, unwind=34, defines=['DEC_MAXLEN=8'], props=('C14', 'C20'), cost=600, timeout=3000, tier='thorough',
  bounded='buffer length <= 8 bytes per call (the transport buffer holds up to 32)')
# longer buffers: len6 300 s, len8 550 s, but 10 bytes did not finish in 4000 s and 32 bytes (the transport buffer size) not in 7000 s (MiniSat; the
# external solver is called once per obligation with the CNF written each time, which is slower still) -> 8 bytes is the thorough bound
R('enh_encode', 'h_enh_encode', None, unwind=3, props=('C14', 'C20'), cost=5)
R('transport', 'h_transport', None, unwind=34, props=('C14', 'C20'), cost=60)
R('plain_recv', 'h_plain_recv', None, unwind=6, props=('C14', 'C03', 'C01', 'C20'), cost=20)
R('enh_recv', 'h_enh_recv', None, unwind=6, props=('C14', 'C03', 'C20'), cost=30, bounded='transport buffers of up to 4 bytes, one pass of the receive loop (timeout 0)')
