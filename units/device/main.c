/* unit device: enhanced adapter framing (decode per call vs. a reference decoder written from docs/enhanced_proto.md),
 * request encoding, plain device receive/arbitration (C14, C03 device part, C20).  Back end B2 (harness-enforced). */
#include "vbase.h"
typedef long time_t;
#include "gen_types.h"

/* ---------------- environment ---------------- */
struct Transport { int dummy; };
struct DeviceListener { int dummy; };
#define EV_MAX 48
struct evlog { unsigned n; unsigned char kind[EV_MAX]; };       /* status notifications in order */
struct evlog g_ev;                  /* produced by the real code */
symbol_t g_tw[8]; unsigned g_tw_n; unsigned g_tw_calls; int g_tw_result;     /* bytes handed to Transport::write */
size_t g_consumed; unsigned g_consumed_calls; unsigned g_close_calls, g_reqinfo_calls, g_infonotify_calls, g_data_calls;
symbol_t g_data_value; _Bool g_data_received;
const symbol_t* g_rd_data; size_t g_rd_len; int g_rd_result;               /* what Transport::read returns (plain device) */
time_t g_now;

enum { EV_STRAY2 = 1, EV_MISSING2, EV_ERR_EBUS, EV_ERR_HOST, EV_UNEXPECTED_CMD, EV_RESET, EV_RESET_INFO, EV_OTHER };
static inline void ev_add(struct evlog* l, unsigned char k) { if (l->n < EV_MAX) { l->kind[l->n] = k; } l->n = l->n + 1; }
static inline void DevListener_notifyDeviceStatus(struct DeviceListener* l, _Bool error, const char* msg) {
  unsigned char k = EV_OTHER;
  if (msg[0] == 'u' && msg[20] == 'b') k = EV_STRAY2; else if (msg[0] == 'u') k = EV_UNEXPECTED_CMD;
  else if (msg[0] == 'm') k = EV_MISSING2; else if (msg[0] == 'e') k = EV_ERR_EBUS; else if (msg[0] == 'h') k = EV_ERR_HOST;
  else if (msg[0] == 'r' && msg[5] == ',') k = EV_RESET_INFO; else if (msg[0] == 'r') k = EV_RESET;
  __CPROVER_assert(error == (k != EV_RESET && k != EV_RESET_INFO), "[C14] status notification carries the right error flag");
  ev_add(&g_ev, k);
}
static inline void DevListener_notifyDeviceData(struct DeviceListener* l, const symbol_t* v, size_t n, _Bool received) { g_data_calls = g_data_calls + 1; g_data_value = *v; g_data_received = received; }
static inline result_t Transport_write(struct Transport* t, const uint8_t* buf, size_t len) {
  __CPROVER_assert(len <= 2, "[C14] at most a two byte sequence is written per request");
  for (size_t i = 0; i < 2; i++) { if (i < len && g_tw_n + i < 8) g_tw[g_tw_n + i] = buf[i]; }
  g_tw_n = g_tw_n + (unsigned)len; g_tw_calls = g_tw_calls + 1;
  return (result_t)g_tw_result;
}
static inline result_t Transport_read(struct Transport* t, unsigned timeout, const uint8_t** data, size_t* len) { if (g_rd_result == RESULT_OK) { *data = g_rd_data; *len = g_rd_len; } return (result_t)g_rd_result; }
static inline void Transport_readConsumed(struct Transport* t, size_t n) { g_consumed = n; g_consumed_calls = g_consumed_calls + 1; }
static inline unsigned Transport_getLatency(struct Transport* t) { return nondet_uint() % 1000u; }
static inline void Transport_close(struct Transport* t) { g_close_calls = g_close_calls + 1; }
static inline time_t env_time(void) { return g_now; }
static inline uint64_t clockGetMillis(void) { return nondet_ulong() >> 8; }

/* file transport environment: the adapter byte stream is g_stream[]; ::read appends the next bytes, ppoll may time out or fail */
struct timespec { long tv_sec; long tv_nsec; };
struct TransportListener { int dummy; };
#define STREAM_N 128
const symbol_t* g_stream; size_t g_base;      /* g_stream[g_base] is the oldest byte not yet consumed by the device */
unsigned g_overflow_notes; size_t g_read_space; long g_read_ret; int g_poll_ret;
static inline void TrListener_notifyTransportMessage(struct TransportListener* l, _Bool error, const char* msg) { g_overflow_notes = g_overflow_notes + 1; }
static inline int env_ppoll(int fd, struct timespec* t) { return g_poll_ret; }
static inline void* env_memmove(void* dst, const void* src, size_t n) {
  __CPROVER_assert(n <= 32, "[C20] memmove within the 32 byte buffer");
  symbol_t tmp[32]; const symbol_t* s = (const symbol_t*)src; symbol_t* d = (symbol_t*)dst;
  for (size_t i = 0; i < 32; i++) { if (i < n) tmp[i] = s[i]; }
  for (size_t i = 0; i < 32; i++) { if (i < n) d[i] = tmp[i]; }
  return dst;
}
#include "gen_protos.h"
_Bool g_reqinfo_ok;   /* whether the info request can be written (chosen by the harness) */
/* effect of requestEnhancedInfo(id, false) as in device_trans.cpp: on success the response is awaited from position 1 */
result_t EDEV_requestEnhancedInfo(EDEV* self, symbol_t infoId, _Bool wait) {
  g_reqinfo_calls = g_reqinfo_calls + 1;
  if (g_reqinfo_ok) { self->m_infoBuf[0] = infoId; self->m_infoLen = 1; self->m_infoPos = 1; return RESULT_OK; }
  self->m_infoLen = 0; self->m_infoPos = 0; return RESULT_ERR_SEND;
}
void EDEV_notifyInfoRetrieved(EDEV* self) {
  __CPROVER_assert(self->m_infoLen >= 1 && self->m_infoLen <= sizeof(self->m_infoBuf) && self->m_infoPos == self->m_infoLen, "[C20] info response is complete and inside the info buffer when it is parsed");
  g_infonotify_calls = g_infonotify_calls + 1;
}
static inline _Bool FTR_isValid(FTR* self) { return self->m_fd != -1; }
static inline void FTR_close(FTR* self) { self->m_fd = -1; }
/* ::read(fd, buf, count): returns -1/0 or k in 1..count and stores the next k bytes of the adapter stream at buf (the place the code asks for) */
const symbol_t* g_stream_ro; size_t g_streampos; unsigned g_read_calls;
static inline long env_read(int fd, symbol_t* buf, size_t count) {
  g_read_space = count; g_read_calls = g_read_calls + 1;
  __CPROVER_assert(count <= 32 && count >= 1, "[C20] ::read is asked for at least one and at most the free bytes of the buffer");
  long k = g_read_ret;
  if (k <= 0) return k;
  __CPROVER_assume((size_t)k <= count);
  for (size_t i = 0; i < 32; i++) { if (i < (size_t)k) buf[i] = g_stream_ro[g_streampos + i]; }
  g_streampos = g_streampos + (size_t)k;
  return k;
}
#include "spec.h"
#include "gen_funcs.inc"

/* ---------------- harnesses ---------------- */
EDEV nondet_EDEV(void);
#define DEV_OK(d) ((d)->m_arbitrationCheck <= 3 && (d)->m_infoPos <= sizeof((d)->m_infoBuf) && (d)->m_resetTime >= 0 && (d)->m_resetTime < (1L << 33) \
   && ((d)->m_arbitrationMaster != 0xAA || (d)->m_arbitrationCheck == 0))

/* C14: one call of handleEnhancedBufferedData on an arbitrary buffer (the transport buffer holds at most 32 bytes) equals the reference decoder */
void h_enh_decode(void) {
  EDEV d = nondet_EDEV(), r; struct Transport tr; struct DeviceListener lis; symbol_t buf[32]; size_t len = nondet_size();
  symbol_t value = nondet_sym(), value0 = value; int arb0 = nondet_int(); ArbitrationState arb = (ArbitrationState)arb0;
  for (int i = 0; i < 32; i++) buf[i] = nondet_sym();
  d.m_transport = &tr; d.m_listener = &lis; g_now = nondet_long();
#ifndef DEC_MAXLEN
#define DEC_MAXLEN 32
#endif
  __CPROVER_assume(len <= DEC_MAXLEN && DEV_OK(&d) && g_now >= 0 && g_now < (1L << 33));
  __CPROVER_assume(arb0 == as_none || arb0 == as_running);       /* recv() passes as_running exactly while an arbitration is requested */
  __CPROVER_assume((arb0 == as_running) == (d.m_arbitrationMaster != 0xAA));
  r = d; g_reqinfo_ok = nondet_bool();
  g_ev.n = 0; g_consumed_calls = 0; g_close_calls = 0; g_reqinfo_calls = 0; g_infonotify_calls = 0; g_data_calls = 0; g_tw_n = 0; g_tw_calls = 0; g_tw_result = nondet_bool() ? RESULT_OK : RESULT_ERR_SEND;
  result_t res = EDEV_handleEnhancedBufferedData(&d, buf, len, &value, &arb);
  struct ref_out o = ref_decode_call(&r, buf, len, arb0);
  __CPROVER_assert(res == (o.more ? RESULT_CONTINUE : o.has_sym ? RESULT_OK : RESULT_ERR_TIMEOUT), "[C14] result: symbol / more buffered / nothing");
  __CPROVER_assert(!o.has_sym || value == o.sym, "[C14] decoded symbol equals the reference decoder's symbol");
  __CPROVER_assert(o.has_sym || res == RESULT_ERR_TIMEOUT, "[C14] no symbol is invented");
  __CPROVER_assert((int)arb == o.arb, "[C14] arbitration verdict equals the reference (STARTED = won, FAILED = lost, third SYN = timeout, reset/error = error)");
  __CPROVER_assert(g_consumed_calls == 1 && g_consumed == o.consumed, "[C14] exactly the decoded frames are consumed (a dangling first byte and the next symbol stay buffered)");
  __CPROVER_assert(g_ev.n == o.ev.n, "[C14] same number of diagnostic notifications as the reference");
  __CPROVER_assert(__CPROVER_forall { unsigned k; (k < EV_MAX) ==> (k < o.ev.n ==> g_ev.kind[k] == o.ev.kind[k]) }, "[C14] same diagnostic notifications in the same order");
  __CPROVER_assert(d.m_arbitrationMaster == r.m_arbitrationMaster && d.m_arbitrationCheck == r.m_arbitrationCheck, "[C14] arbitration bookkeeping equals the reference");
  __CPROVER_assert(g_close_calls == o.closes && g_reqinfo_calls == o.reqinfos && g_infonotify_calls == o.infos, "[C14] reset / info side effects equal the reference");
  __CPROVER_assert(d.m_extraFeatures == r.m_extraFeatures && d.m_resetRequested == r.m_resetRequested, "[C14] feature / reset bookkeeping equals the reference");
  __CPROVER_assert(d.m_infoLen == r.m_infoLen && (d.m_infoLen == 0 || d.m_infoPos == r.m_infoPos), "[C14] info transfer bookkeeping equals the reference");
  __CPROVER_assert(DEV_OK(&d), "[C20] device state stays well-formed (info position inside the buffer)");
  __CPROVER_assert(g_data_calls == (o.has_sym ? 1u : 0u) && (!o.has_sym || (g_data_value == o.sym && g_data_received == !o.sent)), "[C14] the delivered symbol is logged once as received / sent");
  if (o.has_sym && o.more) { CANARY("symbol and more"); }
  if (o.arb == as_won) { CANARY("won"); }
  if (o.arb == as_timeout) { CANARY("arbitration timeout"); }
  if (o.ev.n >= 3) { CANARY("three notifications"); }
  if (o.ev.n >= 1 && o.has_sym) { CANARY("symbol and notification"); }
  if (o.infos == 1) { CANARY("info complete"); }
  if (o.closes == 1) { CANARY("self reset"); }
  if (!o.has_sym && o.consumed + 1 == len && len == DEC_MAXLEN) { CANARY("dangling first byte kept"); }
}

/* C14: EnhancedDevice::recv (one pass, timeout 0): passes as_running exactly while an arbitration is requested, hands the transport buffer to the
   frame decoder and returns its verdict; a transport error other than a timeout cancels a requested arbitration (START <SYN> is written) */
void h_enh_recv(void) {
  EDEV d = nondet_EDEV(), r; struct Transport tr; struct DeviceListener lis; symbol_t buf[4]; size_t len = nondet_size();
  symbol_t value = nondet_sym(); int arb_in = nondet_int(); ArbitrationState arb = (ArbitrationState)arb_in;
  for (int i = 0; i < 4; i++) buf[i] = nondet_sym();
  d.m_transport = &tr; d.m_listener = &lis; g_now = nondet_long();
  __CPROVER_assume(len >= 1 && len <= 4 && DEV_OK(&d) && g_now >= 0 && g_now < (1L << 33) && (arb_in == as_none));
  r = d; g_reqinfo_ok = nondet_bool();
  g_rd_data = buf; g_rd_len = len; g_rd_result = nondet_bool() ? RESULT_OK : (nondet_bool() ? RESULT_ERR_TIMEOUT : RESULT_ERR_DEVICE);
  g_ev.n = 0; g_consumed_calls = 0; g_close_calls = 0; g_reqinfo_calls = 0; g_infonotify_calls = 0; g_data_calls = 0; g_tw_n = 0; g_tw_calls = 0; g_tw_result = nondet_bool() ? RESULT_OK : RESULT_ERR_SEND;
  result_t res = EDEV_recv(&d, 0, &value, &arb);
  int arb0 = r.m_arbitrationMaster != 0xAA ? as_running : as_none;
  if (g_rd_result == RESULT_OK) {
    struct ref_out o = ref_decode_call(&r, buf, len, arb0);
    __CPROVER_assert(res == (o.more ? RESULT_CONTINUE : o.has_sym ? RESULT_OK : RESULT_ERR_TIMEOUT) && (!o.has_sym || value == o.sym) && (int)arb == o.arb && g_consumed_calls == 1 && g_consumed == o.consumed,
                     "[C14] recv delivers exactly what the frame decoder finds in the transport buffer (symbol, verdict, consumed bytes), with the arbitration marked as running while one is requested");
    CANARY("data");
  } else if (g_rd_result == RESULT_ERR_TIMEOUT) {
    __CPROVER_assert(res == RESULT_ERR_TIMEOUT && g_consumed_calls == 0 && g_tw_calls == 0 && (int)arb == arb0 && d.m_arbitrationMaster == r.m_arbitrationMaster, "[C14] a timeout delivers nothing and keeps a requested arbitration");
  } else {
    __CPROVER_assert(res == g_rd_result && g_consumed_calls == 0, "[C14] a transport error is returned");
    __CPROVER_assert(d.m_arbitrationMaster == 0xAA && d.m_arbitrationCheck == 0 && (r.m_arbitrationMaster == 0xAA ? g_tw_calls == 0 : (arb == as_error && g_tw_calls == 1 && g_tw_n == 2)), "[C03,C14] a transport error cancels a requested arbitration (START <SYN> written, verdict error)");
    if (r.m_arbitrationMaster != 0xAA) { CANARY("cancelled"); }
  }
}

/* C14: requests are encoded as the defined two byte sequence 11ccccdd 10dddddd */
void h_enh_encode(void) {
  EDEV d = nondet_EDEV(); struct Transport tr; struct DeviceListener lis; symbol_t v = nondet_sym();
  d.m_transport = &tr; d.m_listener = &lis;
  __CPROVER_assume(DEV_OK(&d));
  g_tw_n = 0; g_tw_calls = 0; g_tw_result = nondet_bool() ? RESULT_OK : RESULT_ERR_SEND; g_data_calls = 0;
  int which = nondet_int();
  if (which == 0) {
    result_t r = EDEV_send(&d, v);
    __CPROVER_assert(g_tw_calls == 1 && g_tw_n == 2 && g_tw[0] == (symbol_t)(0xC0 | (0x1 << 2) | (v >> 6)) && g_tw[1] == (symbol_t)(0x80 | (v & 0x3f)), "[C14] SEND request encoding");
    __CPROVER_assert(r == g_tw_result, "[C14] send result is the transport result");
    CANARY("send");
  } else if (which == 1) {
    symbol_t m0 = d.m_arbitrationMaster; size_t c0 = d.m_arbitrationCheck;
    result_t r = EDEV_startArbitration(&d, v);
    if (c0 == 0 && v != 0xAA) {
      __CPROVER_assert(g_tw_calls == 1 && g_tw_n == 2 && g_tw[0] == (symbol_t)(0xC0 | (0x2 << 2) | (v >> 6)) && g_tw[1] == (symbol_t)(0x80 | (v & 0x3f)), "[C14] START request encoding");
      __CPROVER_assert(r == g_tw_result && (r == RESULT_OK ? (d.m_arbitrationMaster == v && d.m_arbitrationCheck == 1) : (d.m_arbitrationMaster == 0xAA)), "[C14] arbitration is pending exactly when the START request was written");
      CANARY("start");
    }
    if (c0 == 0 && v == 0xAA) { __CPROVER_assert(g_tw_calls == 0 && d.m_arbitrationMaster == 0xAA, "[C14] cancelling without a running arbitration writes nothing"); }
    if (c0 != 0 && v != 0xAA) { __CPROVER_assert(r == RESULT_ERR_ARB_RUNNING && g_tw_calls == 0, "[C03] no second arbitration is started while one is running"); }
    if (c0 != 0 && v == 0xAA) {
      __CPROVER_assert(g_tw_calls == 1 && g_tw[0] == (symbol_t)(0xC0 | (0x2 << 2) | (0xAA >> 6)) && g_tw[1] == (symbol_t)(0x80 | (0xAA & 0x3f)) && d.m_arbitrationMaster == 0xAA && d.m_arbitrationCheck == 0, "[C14] a running arbitration is cancelled with START <SYN>");
      CANARY("cancel");
    }
  } else {
    ArbitrationState a = as_running; symbol_t m0 = d.m_arbitrationMaster;
    _Bool r = EDEV_cancelRunningArbitration(&d, nondet_bool() ? &a : NULL);
    __CPROVER_assert((m0 == 0xAA) ? (!r && g_tw_calls == 0) : (g_tw_calls == 1 && g_tw_n == 2 && d.m_arbitrationMaster == 0xAA && d.m_arbitrationCheck == 0), "[C14] cancel writes START <SYN> exactly when an arbitration was requested");
  }
}

/* plain device: bytes are delivered unchanged, one per call; the own address is written only directly after a lone SYN while an
   arbitration is requested, and the verdict is given with the very next symbol (this is the verdict timing the handler relies on) */
void h_plain_recv(void) {
  EDEV d = nondet_EDEV(); struct Transport tr; struct DeviceListener lis; symbol_t buf[4]; size_t len = nondet_size();
  symbol_t value = nondet_sym(); ArbitrationState arb = as_none;
  for (int i = 0; i < 4; i++) buf[i] = nondet_sym();
  d.m_transport = &tr; d.m_listener = &lis;
  __CPROVER_assume(len >= 1 && len <= 4 && d.m_arbitrationCheck <= 1 && (d.m_arbitrationMaster != 0xAA || d.m_arbitrationCheck == 0));
  g_rd_data = buf; g_rd_len = len; g_rd_result = nondet_bool() ? RESULT_OK : (nondet_bool() ? RESULT_ERR_TIMEOUT : RESULT_ERR_DEVICE);
  g_tw_n = 0; g_tw_calls = 0; g_tw_result = nondet_bool() ? RESULT_OK : RESULT_ERR_SEND; g_consumed_calls = 0; g_data_calls = 0;
  symbol_t m0 = d.m_arbitrationMaster; size_t c0 = d.m_arbitrationCheck;
  result_t r = PlainDevice_recv(&d, 0, &value, &arb);
  if (g_rd_result == RESULT_OK) {
    __CPROVER_assert(value == buf[0] && g_consumed_calls == 1 && g_consumed == 1 && r == (len > 1 ? RESULT_CONTINUE : RESULT_OK), "[C14] the first buffered byte is delivered unchanged and exactly one byte is consumed");
    _Bool wrote = g_tw_calls > 0;
    __CPROVER_assert(wrote == (m0 != 0xAA && c0 == 0 && buf[0] == 0xAA && len == 1), "[C03] the arbitration address is written exactly directly after a lone SYN while an arbitration is requested");
    __CPROVER_assert(!wrote || (g_tw_n == 1 && g_tw[0] == m0), "[C03] the symbol written for arbitration is the requested master address");
    __CPROVER_assert((arb == as_won || arb == as_lost) == (c0 == 1), "[C01,C03] a won/lost verdict is given exactly with the symbol that follows the written address");
    __CPROVER_assert(c0 != 1 || ((arb == as_won) == (buf[0] == m0) && d.m_arbitrationMaster == 0xAA && d.m_arbitrationCheck == 0), "[C03] won iff the own address was read back; the arbitration is over either way");
    if (wrote) { CANARY("address written"); }
    if (arb == as_lost) { CANARY("lost"); }
  } else {
    __CPROVER_assert(g_consumed_calls == 0 && g_tw_calls == 0, "[C14] nothing is consumed or written without data");
    __CPROVER_assert(g_rd_result == RESULT_ERR_TIMEOUT || (d.m_arbitrationMaster == 0xAA && (m0 == 0xAA || arb == as_error)), "[C03] a device error cancels a requested arbitration");
  }
}

/* plain byte transport: the buffer always holds the unconsumed bytes of the stream in order; an overflow reset discards exactly the
   buffered bytes and is notified; readConsumed drops exactly the consumed prefix */
FTR nondet_FTR(void);
void h_transport(void) {
  FTR t = nondet_FTR(); symbol_t buffer[32]; struct TransportListener lis; const uint8_t* data = NULL; size_t len = nondet_size(), len0 = len;
  symbol_t stream[STREAM_N]; g_stream = stream;   /* arbitrary adapter byte stream */
  t.m_buffer = buffer; t.m_bufSize = 32; t.m_listener = &lis; g_base = nondet_size(); g_overflow_notes = 0;
  __CPROVER_assume(t.m_bufLen <= 32 && g_base <= 32 && t.m_latency <= 10000);
  __CPROVER_assume(__CPROVER_forall { size_t i; (i < 32) ==> (i < t.m_bufLen ==> buffer[i] == g_stream[g_base + i]) });
  size_t n0 = t.m_bufLen;
  if (nondet_bool()) {
    unsigned timeout = nondet_uint(); g_poll_ret = nondet_int(); g_read_ret = nondet_long();
    __CPROVER_assume(timeout <= 100000 && g_poll_ret >= -1 && g_poll_ret <= 1 && g_read_ret >= -1 && g_read_ret <= 32);
    /* the stub of ::read stores the next stream bytes where the code asks for them */
    _Bool overflow = n0 > 0 && n0 > 32 - 32 / 4;
    g_stream_ro = stream; g_streampos = g_base + n0; g_read_calls = 0;     /* position of the next byte the adapter delivers */
    result_t r = FTR_read(&t, timeout, &data, &len);
    __CPROVER_assert(g_read_calls <= 1, "[C14] the device is read at most once per call");
    if (r == RESULT_OK) {
      __CPROVER_assert(data == buffer && len == t.m_bufLen && len >= 1 && len <= 32, "[C14] read hands out the whole buffer");
      if (timeout == 0) { __CPROVER_assert(t.m_bufLen == n0 && g_overflow_notes == 0, "[C14] timeout 0 only returns what is buffered"); }
      else {
        __CPROVER_assert((g_overflow_notes == 1) == overflow, "[C14] an overflow reset is reported, and only then bytes are discarded");
        if (overflow) { g_base = g_base + n0; __CPROVER_assert(t.m_bufLen == (size_t)g_read_ret, "[C14] overflow discards exactly the buffered bytes"); CANARY("overflow"); }
        else { __CPROVER_assert(t.m_bufLen == n0 + (size_t)g_read_ret, "[C14] new bytes are appended behind the buffered ones"); }
      }
      __CPROVER_assert(__CPROVER_forall { size_t j; (j < 32) ==> (j < t.m_bufLen ==> buffer[j] == g_stream[g_base + j]) }, "[C14] the buffer holds the unconsumed stream bytes unchanged and in order");
      CANARY("read ok");
    } else {
      __CPROVER_assert(len == len0 && (t.m_bufLen == n0 || (overflow && t.m_bufLen == 0 && g_overflow_notes == 1)), "[C14] a failed read changes nothing (besides a reported overflow reset)");
    }
    __CPROVER_assert(t.m_bufLen <= 32, "[C20] buffer length within the buffer");
  } else {
    size_t c = nondet_size();
    FTR_readConsumed(&t, c);
    size_t drop = c >= n0 ? n0 : c;
    g_base = g_base + drop;
    __CPROVER_assert(t.m_bufLen == n0 - drop, "[C14] readConsumed drops exactly the consumed bytes");
    __CPROVER_assert(__CPROVER_forall { size_t j; (j < 32) ==> (j < t.m_bufLen ==> buffer[j] == g_stream[g_base + j]) }, "[C14] the remaining bytes move to the front unchanged and in order");
    if (drop > 0 && drop < n0) { CANARY("partial consume"); }
  }
}
