/* Reference decoder of the enhanced adapter protocol for one receive call, written from docs/enhanced_proto.md:
 *   byte < 0x80                 : received symbol
 *   11ccccdd 10dddddd           : command c, data d
 *   RECEIVED/STARTED/FAILED     : yield the symbol d (STARTED: arbitration won, FAILED: lost)
 *   RESETTED/INFO/ERROR_*       : no symbol
 *   10xxxxxx without first byte : protocol error, dropped; 11xxxxxx not followed by 10xxxxxx: protocol error, both bytes dropped
 * Policy of the device (one symbol per call): the call stops before the next symbol-bearing item once it has a symbol; an incomplete
 * two byte sequence at the end stays buffered. */
#ifndef DEVICE_SPEC_H
#define DEVICE_SPEC_H
struct ref_out { _Bool has_sym, more, sent; symbol_t sym; int arb; size_t consumed; struct evlog ev; unsigned closes, reqinfos, infos; };

static inline struct ref_out ref_decode_call(EDEV* r, const symbol_t* data, size_t len, int arb0) {
  struct ref_out o; o.has_sym = 0; o.more = 0; o.sent = 0; o.sym = 0; o.arb = arb0; o.consumed = 0; o.ev.n = 0; o.closes = 0; o.reqinfos = 0; o.infos = 0;
  size_t pos = 0; _Bool stop = 0;
  for (int it = 0; it < 33; it++) {
    if (stop || pos >= len) break;
    symbol_t b = data[pos];
    if (b < 0x80) {                                   /* plain symbol */
      if (o.has_sym) { o.more = 1; break; }
      o.has_sym = 1; o.sym = b; pos = pos + 1; continue;
    }
    if ((b & 0xC0) == 0x80) { ev_add(&o.ev, EV_STRAY2); pos = pos + 1; continue; }    /* second byte without first */
    if (pos + 1 >= len) break;                        /* incomplete sequence: wait for the rest */
    symbol_t b2 = data[pos + 1];
    if ((b2 & 0xC0) != 0x80) { ev_add(&o.ev, EV_MISSING2); pos = pos + 2; continue; }  /* first byte not followed by a second byte */
    symbol_t cmd = (b >> 2) & 0x0f, d = (symbol_t)(((b & 0x03) << 6) | (b2 & 0x3f));
    if (cmd == 0x1 || cmd == 0x2 || cmd == 0xa) {     /* RECEIVED / STARTED / FAILED carry a symbol */
      if (o.has_sym) { o.more = 1; break; }
      o.has_sym = 1; o.sym = d; pos = pos + 2;
      if (cmd != 0x1) { o.sent = cmd == 0x2; o.arb = cmd == 0x2 ? as_won : as_lost; r->m_arbitrationMaster = 0xAA; r->m_arbitrationCheck = 0; }
      else if (d == 0xAA && o.arb == as_running && r->m_arbitrationCheck) {
        if (r->m_arbitrationCheck < 3) r->m_arbitrationCheck = r->m_arbitrationCheck + 1;
        else { o.arb = as_timeout; r->m_arbitrationMaster = 0xAA; r->m_arbitrationCheck = 0; }
      }
      continue;
    }
    pos = pos + 2;
    if (cmd == 0x0) {                                 /* RESETTED */
      if (o.arb != as_none) { o.arb = as_error; r->m_arbitrationMaster = 0xAA; r->m_arbitrationCheck = 0; }
      r->m_infoLen = 0;
      if (!r->m_resetRequested && r->m_resetTime + 3 >= g_now) {
        if (d == r->m_extraFeatures) continue;        /* explicit response to the init request: nothing to do */
        r->m_resetRequested = 1;
      }
      r->m_extraFeatures = d;
      ev_add(&o.ev, (d & 0x01) ? EV_RESET_INFO : EV_RESET);
      if (r->m_resetRequested) { r->m_resetRequested = 0; if (d & 0x01) { o.reqinfos = o.reqinfos + 1; if (g_reqinfo_ok) { r->m_infoBuf[0] = 0; r->m_infoLen = 1; r->m_infoPos = 1; } else { r->m_infoLen = 0; r->m_infoPos = 0; } } continue; }
      o.closes = o.closes + 1;                        /* self-reset of the adapter: reopen */
      if (r->m_arbitrationMaster != 0xAA) { o.arb = as_error; r->m_arbitrationMaster = 0xAA; r->m_arbitrationCheck = 0; }
      continue;
    }
    if (cmd == 0x3) {                                 /* INFO */
      if (r->m_infoLen == 1) r->m_infoLen = (size_t)d + 1;
      else if (r->m_infoLen && r->m_infoPos < r->m_infoLen && r->m_infoPos < sizeof(r->m_infoBuf)) {
        r->m_infoBuf[r->m_infoPos] = d; r->m_infoPos = r->m_infoPos + 1;
        if (r->m_infoPos >= r->m_infoLen) { o.infos = o.infos + 1; r->m_infoLen = 0; }
      } else r->m_infoLen = 0;
      continue;
    }
    if (cmd == 0xb || cmd == 0xc) {                   /* ERROR_EBUS / ERROR_HOST */
      ev_add(&o.ev, cmd == 0xb ? EV_ERR_EBUS : EV_ERR_HOST);
      if (r->m_arbitrationMaster != 0xAA) { o.arb = as_error; r->m_arbitrationMaster = 0xAA; r->m_arbitrationCheck = 0; }
      continue;
    }
    ev_add(&o.ev, EV_UNEXPECTED_CMD);                 /* undefined command: the first byte is dropped now, the second on the next call */
    pos = pos - 1; stop = 1;
  }
  o.consumed = pos;
  return o;
}
#endif
