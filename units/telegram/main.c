/* unit telegram: building, storing and re-joining telegrams (C09): Message::prepareMaster / prepareMasterPart / prepareSlave / storeLastData,
 * ChainedMessage::checkId / prepareMasterPart / storeLastData / combineLastParts.  Back end B2 (harness-enforced). */
#include "vbase.h"
#include "vvec.h"
typedef long time_t;
#include "gen_types.h"
#define SS_STUBS_DATA
#include "ss_stubs.h"
#define VSYM_EQ(a, b) vsym_equal(&(a), &(b))
static inline _Bool vsym_equal_from1(const vsym* a, const vsym* b) {    /* std::equal(begin()+1, end(), other.begin()+1) for equal sizes */
  _Bool eq = 1;
  for (size_t k = 1; k < SS_CAP; k++) { if (k < a->n && a->d[k] != b->d[k]) eq = 0; }
  return eq;
}
#define VSYM_EQ_FROM1(a, b) vsym_equal_from1(&(a), &(b))
static inline _Bool SymbolString_differs(const SymbolString* a, const SymbolString* b) { return a->m_isMaster != b->m_isMaster || !vsym_equal(&a->m_data, &b->m_data); }
static inline SymbolString SS_new(_Bool isMaster) { SymbolString s; s.m_isMaster = isMaster; s.m_data.n = 0; return s; }

#ifndef CH_CAP
#define CH_CAP 3          /* chain parts in the model */
#endif
#ifndef ID_MAX
#define ID_MAX 8          /* PB SB + up to 6 further id bytes */
#endif
#ifndef WCAP
#define WCAP 12           /* encoded field data bytes in the model */
#endif
#ifndef LEN_MAX
#define LEN_MAX 4         /* data bytes per chain part */
#endif
#ifndef SLV_MAX
#define SLV_MAX 6         /* slave data bytes per chain part */
#endif
struct DF { size_t mlen, slen; };            /* encoded length of the master / slave field data (fixed by the definition) */
struct iss { int dummy; };
struct idvec { vsym e[CH_CAP]; size_t n; };
struct lenvec { size_t e[CH_CAP]; size_t n; };
struct Message { vsym m_id; _Bool m_isWrite, m_isPassive; symbol_t m_srcAddress, m_dstAddress; const struct DF* m_data;
  SymbolString m_lastMasterData, m_lastSlaveData; time_t m_lastUpdateTime, m_lastChangeTime;
  struct idvec m_ids; struct lenvec m_lengths; time_t m_maxTimeDiff;
  SymbolString* m_lastMasterDatas[CH_CAP]; SymbolString* m_lastSlaveDatas[CH_CAP]; time_t m_lastMasterUpdateTimes[CH_CAP], m_lastSlaveUpdateTimes[CH_CAP]; };
#define IDS0_SIZE(v) ((v).e[0].n)
static inline size_t idvec_size(const struct idvec* v) { return v->n; }
static inline vsym idvec_at(const struct idvec* v, size_t i) { __CPROVER_assert(i < v->n && i < CH_CAP, "[C20] chain part index in range"); return v->e[i < CH_CAP ? i : 0]; }
static inline size_t lenvec_at(const struct lenvec* v, size_t i) { __CPROVER_assert(i < v->n && i < CH_CAP, "[C20] chain length index in range"); return v->e[i < CH_CAP ? i : 0]; }
time_t g_now;
static inline void env_time(time_t* t) { time_t v = nondet_long(); __CPROVER_assume(v >= g_now && v >= 1 && v < (1L << 33)); g_now = v; *t = v; }   /* monotone clock, may repeat a second */

/* field encoder of the definition: fails, or appends the encoded bytes at the position it is given */
symbol_t g_wbytes[WCAP]; unsigned g_write_calls; _Bool g_write_ok;
static inline result_t DF_write(const struct DF* f, char sep, size_t offset, struct iss* in, SymbolString* data, size_t* len) {
  g_write_calls = g_write_calls + 1;
  size_t dataoff = data->m_isMaster ? 5 : 1;
  /* DataFieldSet::write places the bytes at data offset `offset` (dataAt(offset + k), growing the string with zeros) */
  __CPROVER_assert(data->m_data.n <= dataoff + offset, "[C09] the field data is placed after header and id bytes (nothing already built is overwritten)");
  g_write_ok = nondet_bool();
  if (!g_write_ok) return RESULT_ERR_INVALID_NUM;     /* input rejected */
  for (size_t k = 0; k < 8; k++) { if (data->m_data.n < dataoff + offset) SymbolString_push_back(data, 0); }
  size_t n = data->m_isMaster ? f->mlen : f->slen;
  for (size_t k = 0; k < WCAP; k++) { if (k < n) SymbolString_push_back(data, g_wbytes[k]); }
  return RESULT_OK;
}
/* field decoder of the definition (units fields / number): stub recording which stored part it is applied to, at which data offset */
struct oss { long written; };
const SymbolString* g_read_part[2]; size_t g_read_off[2]; long g_read_index[2]; _Bool g_read_lead[2]; unsigned g_read_calls; int g_read_result[2]; size_t g_master_fields;
static inline void env_rawdata(struct oss* o) { o->written = o->written + 1; }
static inline long env_tellp(const struct oss* o) { return o->written; }
static inline result_t DF_read(const struct DF* f, const SymbolString* data, size_t offset, _Bool lead, const char* name, long index, unsigned fmt, long outIndex, struct oss* out) {
  unsigned k = g_read_calls < 2 ? g_read_calls : 0;
  __CPROVER_assert(g_read_calls < 2, "[C09] each stored part is decoded at most once");
  g_read_part[k] = data; g_read_off[k] = offset; g_read_index[k] = index; g_read_lead[k] = lead; g_read_calls = g_read_calls + 1;
  if (g_read_result[k] == RESULT_OK) out->written = out->written + 1;
  return (result_t)g_read_result[k];
}
static inline size_t DF_getCount(const struct DF* f, PartType part, const char* name) { return g_master_fields; }
/* ---- environment of the chain id parser (fragment of Message::create): the id column as a sequence of up to CH_CAP entries "hexbytes[:length]" ---- */
#define ENV_NPOS ((size_t)-1)
unsigned g_ids_left;
static inline _Bool env_next_id(void) { if (g_ids_left == 0) return 0; g_ids_left = g_ids_left - 1; return 1; }
static inline size_t env_length_pos(void) { return nondet_bool() ? ENV_NPOS : (size_t)1; }
static inline unsigned env_parse_len(unsigned max, result_t* res) { unsigned v = nondet_uint(); if (nondet_bool()) { *res = RESULT_ERR_INVALID_NUM; return 0; } __CPROVER_assume(v <= max); *res = RESULT_OK; return v; }
static inline result_t env_parse_id(vsym* id) { if (nondet_bool()) return RESULT_ERR_INVALID_ARG; size_t k = nondet_size(); __CPROVER_assume(k <= 4); for (size_t i = 0; i < 4; i++) { if (i < k) vsym_push_back(id, nondet_sym()); } return RESULT_OK; }
static inline void idvec_push(struct idvec* v, const vsym* id) { __CPROVER_assert(v->n < CH_CAP, "model capacity: chain parts"); if (v->n < CH_CAP) { v->e[v->n] = *id; v->n = v->n + 1; } }
static inline void lenvec_push(struct lenvec* v, size_t len) { __CPROVER_assert(v->n < CH_CAP, "model capacity: chain parts"); if (v->n < CH_CAP) { v->e[v->n] = len; v->n = v->n + 1; } }
#define IDS_FRONT_SIZE(v) ((v)->e[0].n)
#include "gen_protos.h"
#include "gen_funcs.inc"

struct Message nondet_Message(void); SymbolString nondet_SS(void); struct DF nondet_DF(void);
#define SS_VALID(s, master) ((s)->m_isMaster == (master) && (s)->m_data.n <= SS_CAP)

/* ---------------- plain messages ---------------- */
void h_prepare(void) {
  struct Message m = nondet_Message(); struct DF df = nondet_DF(); struct iss in; SymbolString master = nondet_SS();
  symbol_t src = nondet_sym(), dst = nondet_sym(); size_t index = nondet_size();
  m.m_data = &df; g_write_calls = 0; g_now = 0;
  __CPROVER_assume(m.m_id.n >= 2 && m.m_id.n <= ID_MAX && df.mlen <= WCAP && SS_VALID(&m.m_lastMasterData, 1) && SS_VALID(&m.m_lastSlaveData, 0) && SS_VALID(&master, 1));
  size_t idlen = m.m_id.n - 2;
  result_t r = Message_prepareMaster(&m, index, src, dst, ';', &in, &master);
  __CPROVER_assert(!(m.m_isPassive || index != 0 || (dst == SYN && m.m_dstAddress == SYN)) || r < 0, "[C09] no telegram is built for a passive definition, a wrong part index or without destination");
  __CPROVER_assert(m.m_isPassive || index != 0 || (dst == SYN && m.m_dstAddress == SYN) || !g_write_ok || r == RESULT_OK, "[C09] for an active definition and accepted field input the telegram is built");
  if (r == RESULT_OK) {
    __CPROVER_assert(master.m_isMaster && master.m_data.n == 5 + idlen + df.mlen, "[C09] the telegram consists of header, id and the encoded master data");
    __CPROVER_assert(master.m_data.d[0] == src && master.m_data.d[1] == (dst == SYN ? m.m_dstAddress : dst) && master.m_data.d[2] == m.m_id.d[0] && master.m_data.d[3] == m.m_id.d[1],
                     "[C09] header QQ ZZ PB SB");
    __CPROVER_assert(master.m_data.d[4] == idlen + df.mlen && (size_t)master.m_data.d[4] + 5 == master.m_data.n, "[C09] NN equals the number of following bytes (id plus master data)");
    size_t k = nondet_size(), j = nondet_size();
    if (k < idlen) { __CPROVER_assert(master.m_data.d[5 + k] == m.m_id.d[2 + k], "[C09] the id bytes follow NN"); }
    if (j < df.mlen) { __CPROVER_assert(master.m_data.d[5 + idlen + j] == g_wbytes[j], "[C09] the encoded field data follows the id unchanged"); }
    __CPROVER_assert(Message_checkId(&m, &master, NULL), "[C09] the built telegram is identified back to its definition (exact id check)");
    __CPROVER_assert(!SymbolString_differs(&m.m_lastMasterData, &master), "[C09] the built telegram is the stored last master data");
    __CPROVER_assert(g_write_calls == 1, "[C09] the input is encoded once");
    CANARY("telegram built");
    if (df.mlen == WCAP && idlen == ID_MAX - 2) { CANARY("longest telegram of the model"); }
  } else {
    __CPROVER_assert(r < 0, "[C09] failure is an error code");
  }
}
void h_prepare_slave(void) {
  struct Message m = nondet_Message(); struct DF df = nondet_DF(); struct iss in; SymbolString slave = nondet_SS();
  m.m_data = &df; g_write_calls = 0; g_now = 0;
  __CPROVER_assume(df.slen <= WCAP && SS_VALID(&m.m_lastSlaveData, 0) && SS_VALID(&slave, 0));
  SymbolString old = m.m_lastSlaveData; time_t change0 = m.m_lastChangeTime;
  result_t r = Message_prepareSlave(&m, &in, &slave);
  __CPROVER_assert(!m.m_isWrite || r < 0, "[C09] no answer is built for a write definition");
  __CPROVER_assert(m.m_isWrite || !g_write_ok || r == RESULT_OK, "[C09] for accepted field input the answer is built");
  if (r == RESULT_OK) {
    __CPROVER_assert(!slave.m_isMaster && slave.m_data.n == 1 + df.slen && slave.m_data.d[0] == df.slen, "[C09] the answer is NN plus the encoded slave data, NN = number of following bytes");
    size_t j = nondet_size();
    if (j < df.slen) { __CPROVER_assert(slave.m_data.d[1 + j] == g_wbytes[j], "[C09] the encoded field data follows NN unchanged"); }
    __CPROVER_assert(!SymbolString_differs(&m.m_lastSlaveData, &slave), "[C09] the built answer is the stored last slave data");
    __CPROVER_assert(SymbolString_differs(&old, &slave) ? m.m_lastChangeTime == m.m_lastUpdateTime : m.m_lastChangeTime == change0, "[C09,C13] the change time moves iff the stored data changed");
    CANARY("answer built");
  }
}
/* storing a received telegram: afterwards the cache holds exactly the master and slave parts */
void h_store(void) {
  struct Message m = nondet_Message(); SymbolString master = nondet_SS(), slave = nondet_SS(); g_now = 0;
  __CPROVER_assume(m.m_id.n >= 2 && m.m_id.n <= ID_MAX && SS_VALID(&m.m_lastMasterData, 1) && SS_VALID(&m.m_lastSlaveData, 0) && SS_VALID(&master, 1) && SS_VALID(&slave, 0));
  SymbolString om = m.m_lastMasterData, os = m.m_lastSlaveData; time_t change0 = m.m_lastChangeTime;
  result_t r = Message_storeLastMaster(&m, 0, &master);
  __CPROVER_assert(r == RESULT_OK && !SymbolString_differs(&m.m_lastMasterData, &master), "[C09] the stored master part is the one received");
  _Bool only_src = master.m_data.n == om.m_data.n && vsym_equal_from1(&master.m_data, &om.m_data);
  __CPROVER_assert(only_src ? m.m_lastChangeTime == change0 : m.m_lastChangeTime == m.m_lastUpdateTime, "[C09,C13] a master part that differs in more than the source address is a change");
  time_t change1 = m.m_lastChangeTime;
  r = Message_storeLastSlave(&m, 0, &slave);
  __CPROVER_assert(r == RESULT_OK && !SymbolString_differs(&m.m_lastSlaveData, &slave), "[C09] the stored slave part is the one received");
  __CPROVER_assert(SymbolString_differs(&os, &slave) ? m.m_lastChangeTime == m.m_lastUpdateTime : m.m_lastChangeTime == change1, "[C09,C13] a different slave part is a change");
  __CPROVER_assert(!SymbolString_differs(&m.m_lastMasterData, &master), "[C09] storing the slave part leaves the master part");
  if (only_src && master.m_data.d[0] != om.m_data.d[0] && master.m_data.n > 1) { CANARY("only the source differs"); }
}

/* ---------------- chained messages ---------------- */
/* well-formed chain (established by Message::create): 2..CH_CAP parts, all part ids of the same length starting with the common prefix m_id, one length per part */
static inline void chain_setup(struct Message* m, struct DF* df, SymbolString* pm, SymbolString* ps) {
  m->m_data = df;
  for (int i = 0; i < CH_CAP; i++) { m->m_lastMasterDatas[i] = &pm[i]; m->m_lastSlaveDatas[i] = &ps[i]; __CPROVER_assume(SS_VALID(&pm[i], 1) && SS_VALID(&ps[i], 0)); }
  __CPROVER_assume(m->m_ids.n >= 2 && m->m_ids.n <= CH_CAP && m->m_lengths.n == m->m_ids.n && m->m_id.n >= 2 && m->m_id.n <= ID_MAX);
  __CPROVER_assume(m->m_ids.e[0].n > m->m_id.n && m->m_ids.e[0].n <= ID_MAX);   /* the part ids differ after the common prefix */
  for (int i = 0; i < CH_CAP; i++) {
    __CPROVER_assume(m->m_ids.e[i].n == m->m_ids.e[0].n && m->m_lengths.e[i] <= LEN_MAX);
    for (int k = 0; k < ID_MAX; k++) { if ((size_t)k < m->m_id.n) __CPROVER_assume(m->m_ids.e[i].d[k] == m->m_id.d[k]); }
  }
  __CPROVER_assume(SS_VALID(&m->m_lastMasterData, 1) && SS_VALID(&m->m_lastSlaveData, 0) && df->mlen <= WCAP);
  __CPROVER_assume(m->m_maxTimeDiff == (time_t)m->m_ids.n * 15);
  for (int i = 0; i < CH_CAP; i++) __CPROVER_assume(m->m_lastMasterUpdateTimes[i] >= 0 && m->m_lastMasterUpdateTimes[i] < (1L << 33) && m->m_lastSlaveUpdateTimes[i] >= 0 && m->m_lastSlaveUpdateTimes[i] < (1L << 33));
}
/* a part whose arrival time is set has been stored from a telegram with the complete id (prepareMasterPart, or checkId before storing) */
#define PART_OK(m, pm, i, L) ((m)->m_lastMasterUpdateTimes[i] == 0 || SymbolString_getDataSize(&(pm)[i]) >= (L))
static inline size_t part_data(const SymbolString* p, size_t L) { size_t ds = SymbolString_getDataSize(p); return ds >= L ? ds - L : 0; }

void h_chain_prepare(void) {
  struct Message m = nondet_Message(); struct DF df = nondet_DF(); SymbolString pm[CH_CAP], ps[CH_CAP]; struct iss in; SymbolString master = nondet_SS();
  symbol_t src = nondet_sym(), dst = nondet_sym(); size_t index = nondet_size(); g_now = 0; g_write_calls = 0;
  for (int i = 0; i < CH_CAP; i++) { pm[i] = nondet_SS(); ps[i] = nondet_SS(); }
  chain_setup(&m, &df, pm, ps);
  __CPROVER_assume(SS_VALID(&master, 1));
  size_t L = m.m_ids.e[0].n - 2, cnt = m.m_ids.n;
  for (int i = 0; i < CH_CAP; i++) { __CPROVER_assume((size_t)i >= cnt || PART_OK(&m, pm, i, L)); __CPROVER_assume(pm[i].m_data.n <= 5 + L + LEN_MAX && ps[i].m_data.n <= 1 + SLV_MAX); }
  result_t r = Chained_prepareMaster(&m, index, src, dst, ';', &in, &master);
  __CPROVER_assert(!(m.m_isPassive || index >= cnt || (dst == SYN && m.m_dstAddress == SYN)) || r < 0, "[C09] no telegram is built for a passive definition, a part index beyond the chain or without destination");
  size_t pos = 0, add = 0;
  if (m.m_isWrite) { for (size_t i = 0; i < CH_CAP; i++) { if (i < index) pos += m.m_lengths.e[i]; } add = m.m_lengths.e[index < CH_CAP ? index : 0]; }
  size_t ix = index < CH_CAP ? index : 0;
  __CPROVER_assert(m.m_isPassive || index >= cnt || (dst == SYN && m.m_dstAddress == SYN) || !g_write_ok || pos + add > df.mlen || r >= RESULT_OK,
                   "[C09] for an active chain and accepted field input covering the part, the part telegram is built");
  if (r >= RESULT_OK) {
    __CPROVER_assert(pos + add <= df.mlen, "[C09] a part is only built from data that was encoded");
    __CPROVER_assert(master.m_isMaster && master.m_data.n == 5 + L + add, "[C09] a chain part consists of header, the id of that part and its share of the data");
    __CPROVER_assert(master.m_data.d[0] == src && master.m_data.d[1] == (dst == SYN ? m.m_dstAddress : dst) && master.m_data.d[2] == m.m_ids.e[ix].d[0] && master.m_data.d[3] == m.m_ids.e[ix].d[1],
                     "[C09] header QQ ZZ PB SB");
    __CPROVER_assert(master.m_data.d[4] == L + add, "[C09] NN equals the number of following bytes (part id plus part data)");
    size_t k = nondet_size(), j = nondet_size();
    if (k < L) { __CPROVER_assert(master.m_data.d[5 + k] == m.m_ids.e[ix].d[2 + k], "[C09] the id bytes of the part follow NN"); }
    if (j < add) { __CPROVER_assert(master.m_data.d[5 + L + j] == g_wbytes[pos + j], "[C09] part i carries the bytes [sum of the lengths before i, +length i) of the encoded data, in order"); }
    size_t found = CH_CAP;
    __CPROVER_assert(Chained_checkId(&m, &master, &found) && found <= index, "[C09] the built part is identified back to the chain");
    if (found < CH_CAP && k >= m.m_id.n - 2 && k < L) { __CPROVER_assert(m.m_ids.e[found].d[2 + k] == m.m_ids.e[ix].d[2 + k], "[C09] ... as a part with the same id"); }
    __CPROVER_assert(!SymbolString_differs(&pm[ix], &master) && m.m_lastMasterUpdateTimes[ix] != 0, "[C09] the built part is stored as the last master data of that part");
    for (int i = 0; i < CH_CAP; i++) __CPROVER_assert((size_t)i >= cnt || PART_OK(&m, pm, i, L), "[C09] stored parts carry the complete id (invariant)");
    CANARY("chain part built");
    if (index == CH_CAP - 1 && add == LEN_MAX && m.m_isWrite) { CANARY("last part with data"); }
  }
}

/* any arrival order: storing one received part; when all parts are present in time the combined value is their concatenation in part order */
void h_chain_store(void) {
  struct Message m = nondet_Message(); struct DF df = nondet_DF(); SymbolString pm[CH_CAP], ps[CH_CAP]; SymbolString master = nondet_SS(), slave = nondet_SS(); g_now = 0;
  for (int i = 0; i < CH_CAP; i++) { pm[i] = nondet_SS(); ps[i] = nondet_SS(); }
  chain_setup(&m, &df, pm, ps);
  __CPROVER_assume(SS_VALID(&master, 1) && SS_VALID(&slave, 0));
  size_t L = m.m_ids.e[0].n - 2, cnt = m.m_ids.n, P = m.m_id.n - 2;
  for (int i = 0; i < CH_CAP; i++) { __CPROVER_assume((size_t)i >= cnt || PART_OK(&m, pm, i, L)); __CPROVER_assume(pm[i].m_data.n <= 5 + L + LEN_MAX && ps[i].m_data.n <= 1 + SLV_MAX); }
  __CPROVER_assume(master.m_data.n <= 5 + L + LEN_MAX && slave.m_data.n <= 1 + SLV_MAX);
  SymbolString old_m = m.m_lastMasterData, old_s = m.m_lastSlaveData;
  /* expected part: the first one whose id matches */
  size_t exp = CH_CAP; _Bool prefix_ok = SymbolString_getDataSize(&master) >= L;
  for (size_t k = 0; k < ID_MAX; k++) { if (k < P && SymbolString_dataAt(&master, k) != m.m_id.d[2 + k]) prefix_ok = 0; }
  for (size_t i = CH_CAP; i-- > 0; ) {
    if (i < cnt) { _Bool eq = L > P; for (size_t k = 0; k < ID_MAX; k++) { if (k >= P && k < L && SymbolString_dataAt(&master, k) != m.m_ids.e[i].d[2 + k]) eq = 0; } if (eq) exp = i; }
  }
  result_t r = Chained_storeLast(&m, &master, &slave);
  if (!prefix_ok || exp == CH_CAP) { __CPROVER_assert(r == RESULT_ERR_INVALID_ARG, "[C08,C09] a telegram that is no part of the chain is not stored (ChainedMessage::checkId rejects it)"); }
  else {
    __CPROVER_assert(r >= RESULT_OK || r == RESULT_ERR_INVALID_POS, "[C09] a part of the chain is stored");
    __CPROVER_assert(!SymbolString_differs(&pm[exp], &master) && !SymbolString_differs(&ps[exp], &slave), "[C08,C09] the telegram is stored as the part whose id it carries (ChainedMessage::checkId identifies the part by all its id bytes)");
    for (int i = 0; i < CH_CAP; i++) __CPROVER_assert((size_t)i >= cnt || PART_OK(&m, pm, i, L), "[C09] stored parts carry the complete id (invariant)");
    if (r == RESULT_OK) {
      /* combined value */
      size_t k = nondet_size(), j = nondet_size(); __CPROVER_assume(k < cnt);
      size_t before_m = 0, before_s = 0, total_m = 0, total_s = 0;
      for (size_t i = 0; i < CH_CAP; i++) { if (i < cnt) { size_t dm = part_data(&pm[i], L), ds = SymbolString_getDataSize(&ps[i]); if (i < k) { before_m += dm; before_s += ds; } total_m += dm; total_s += ds; } }
      const SymbolString* cm = &m.m_lastMasterData; const SymbolString* cs = &m.m_lastSlaveData;
      __CPROVER_assert(cm->m_data.n == 5 + L + total_m && cm->m_data.d[4] == L + total_m, "[C09] the joined master part has the id once and all part data, NN = number of following bytes");
      __CPROVER_assert(cs->m_data.n == 1 + total_s && cs->m_data.d[0] == total_s, "[C09] the joined slave part has all part data, NN = number of following bytes");
      size_t h = nondet_size();
      if (h < 5 + L && h != 4) { __CPROVER_assert(cm->m_data.d[h] == pm[0].m_data.d[h], "[C09] header and id of the joined value are those of the first part"); }
      if (j < part_data(&pm[k], L)) { __CPROVER_assert(cm->m_data.d[5 + L + before_m + j] == pm[k].m_data.d[5 + L + j], "[C09] master data of part k follows the data of the parts before it, in order (no loss, duplication, reordering)"); }
      if (j < SymbolString_getDataSize(&ps[k])) { __CPROVER_assert(cs->m_data.d[1 + before_s + j] == ps[k].m_data.d[1 + j], "[C09] slave data of part k follows the data of the parts before it, in order (no loss, duplication, reordering)"); }
      for (size_t i = 0; i < CH_CAP; i++) { if (i < cnt) __CPROVER_assert(m.m_lastMasterUpdateTimes[i] != 0 && m.m_lastSlaveUpdateTimes[i] != 0, "[C09] a value is only joined when every part has arrived"); }
      if (cnt == CH_CAP && exp == 0 && total_m > LEN_MAX && total_s > SLV_MAX) { CANARY("all parts joined, first part arrived last"); }
    } else if (r == RESULT_CONTINUE) {
      CANARY("chain incomplete");
    }
  }
}

/* decoding the stored data: the master fields are read from the stored master part behind the id (where prepareMasterPart put them), the slave
   fields from the stored slave part at data offset 0 (where prepareSlave / the received answer has them) */
void h_decode(void) {
  struct Message m = nondet_Message(); struct DF df = nondet_DF(); struct oss out; out.written = 0; m.m_data = &df;
  PartType part = nondet_bool() ? pt_any : (nondet_bool() ? pt_masterData : pt_slaveData); long fieldIndex = nondet_long(); _Bool lead = nondet_bool(); unsigned fmt = nondet_uint();
  g_read_calls = 0; g_read_result[0] = nondet_int(); g_read_result[1] = nondet_int(); g_master_fields = nondet_size();
  __CPROVER_assume(m.m_id.n >= 2 && m.m_id.n <= ID_MAX && fieldIndex >= -1 && fieldIndex < 20 && g_master_fields <= 10 && (fmt & ~(unsigned)0x3ff) == 0);
  for (int k = 0; k < 2; k++) __CPROVER_assume(g_read_result[k] == RESULT_OK || g_read_result[k] == RESULT_EMPTY || (g_read_result[k] < 0 && g_read_result[k] >= -30));
  result_t r = Message_decodeLastData(&m, part, lead, NULL, fieldIndex, fmt, &out);
  unsigned k = 0;
  if (part == pt_any || part == pt_masterData) {
    __CPROVER_assert(g_read_calls >= 1 && g_read_part[0] == &m.m_lastMasterData && g_read_off[0] == m.m_id.n - 2 && g_read_index[0] == fieldIndex, "[C09] the master fields are decoded from the stored master part behind the id bytes");
    k = 1;
    if (g_read_result[0] < 0) { __CPROVER_assert(r == g_read_result[0] && g_read_calls == 1, "[C09] a decoding error of the master part is returned"); return; }
  }
  _Bool slave_wanted = part != pt_masterData && !(fieldIndex >= 0 && (size_t)fieldIndex < g_master_fields);
  if (slave_wanted) {
    __CPROVER_assert(g_read_calls == k + 1 && g_read_part[k] == &m.m_lastSlaveData && g_read_off[k] == 0, "[C09] the slave fields are decoded from the stored slave part at data offset 0");
    __CPROVER_assert(g_read_index[k] == (fieldIndex >= 0 ? fieldIndex - (long)g_master_fields : fieldIndex), "[C09] a field index counts the master fields first");
    CANARY("slave part decoded");
  } else { __CPROVER_assert(g_read_calls == k, "[C09] the slave part is not decoded when only master data / a master field is asked for"); }
  if (part == pt_any && fieldIndex < 0 && g_read_result[0] == RESULT_OK && g_read_result[1] == RESULT_OK) { __CPROVER_assert(r == RESULT_OK, "[C09] both parts decoded: success"); CANARY("both parts"); }
}

/* the chain well-formedness the harnesses above assume is what Message::create establishes when it accepts the id column */
void h_create_chain(void) {
  vsym id; struct idvec ids; struct lenvec lens; size_t maxLength = 0; _Bool passive = nondet_bool();
  id.n = 2; id.d[0] = nondet_sym(); id.d[1] = nondet_sym(); ids.n = 0; lens.n = 0;          /* PB SB parsed before */
  g_ids_left = nondet_uint(); __CPROVER_assume(g_ids_left <= CH_CAP);                      /* entries of the id column (an empty column still gives one pass) */
  result_t r = Message_create_chainIds(&id, passive, &ids, &lens, &maxLength);
  if (r == RESULT_OK) {
    __CPROVER_assert(ids.n >= 1 && lens.n == ids.n, "[C09] one id and one length per chain part");
    size_t k = nondet_size(), j = nondet_size(); __CPROVER_assume(k < ids.n && k < CH_CAP);
    __CPROVER_assert(ids.e[k].n == ids.e[0].n && ids.e[0].n >= 2, "[C08,C09,C20] all part ids of a chain have the same length (ChainedMessage::checkId indexes every part with the length of the first)");
    __CPROVER_assert(id.n >= 2 && id.n <= ids.e[0].n, "[C09] the common id is a prefix of the part ids");
    if (j < id.n) __CPROVER_assert(ids.e[k].d[j] == id.d[j], "[C08,C09] every part id starts with the common id (PB SB and the shared id bytes)");
    __CPROVER_assert(ids.n == 1 || !passive, "[C09] a passive definition cannot be chained");
    __CPROVER_assert(maxLength <= 255 + MAX_POS, "[C09] the total data length of an accepted chain is limited");
    if (ids.n == 3 && id.n == 3 && ids.e[0].n == 5) { CANARY("three parts with a shared id byte"); }
  } else { __CPROVER_assert(r < 0, "[C09] rejection is an error"); }
}
