MSG_CPP = 'src/lib/ebus/message.cpp'
MSG_H = 'src/lib/ebus/message.h'
SYM_H = 'src/lib/ebus/symbol.h'

_LOC = [(r'\bMasterSymbolString master;', 'MasterSymbolString master = SS_new(true);', (0, 1)), (r'\bMasterSymbolString allData;', 'MasterSymbolString allData = SS_new(true);', (0, 1)),
        (r'\bSlaveSymbolString slave;', 'SlaveSymbolString slave = SS_new(false);', (0, 1))]
_TS = [(r'time\(&self->m_lastUpdateTime\)', 'env_time(&self->m_lastUpdateTime)'),
       (r'time\(&self->m_lastMasterUpdateTimes\[index\]\)', 'env_time(&self->m_lastMasterUpdateTimes[index])'),
       (r'time\(&self->m_lastSlaveUpdateTimes\[index\]\)', 'env_time(&self->m_lastSlaveUpdateTimes[index])'),
       (r'_storeLastMaster\(self, index, \*master\)', '_storeLastMaster(self, index, master)'),
       (r'\*slave != self->m_lastSlaveData', 'SymbolString_differs(slave, &self->m_lastSlaveData)'),
       (r'self->m_lastSlaveData != \(\*data\)', 'SymbolString_differs(&self->m_lastSlaveData, data)'),
       (r'\*self->m_lastSlaveDatas\[index\] != \(\*data\)', 'SymbolString_differs(self->m_lastSlaveDatas[index], data)'),
       (r'SymbolString_compareTo\(data, self->m_lastMasterData\)', 'SymbolString_compareTo(data, &self->m_lastMasterData)'),
       (r'SymbolString_compareTo\(data, \*self->m_lastMasterDatas\[index\]\)', 'SymbolString_compareTo(data, self->m_lastMasterDatas[index])'),
       (r'Message_getIdLength_self\(\)', 'Message_getIdLength(self)'), (r'vector<symbol_t> id =', 'vsym id ='),
       (r'Chained_checkId\(self, \(\*master\), &index\)', 'Chained_checkId(self, master, &index)'),
       (r'Chained_storeLastX\(self, index, \(\*master\)\)', 'Chained_storeLastMaster(self, index, master)'),
       (r'Chained_storeLastX\(self, index, \(\*slave\)\)', 'Chained_storeLastSlave(self, index, slave)'),
       (r'\(\*add\)\[pos\]', '*SymbolString_at_nc_inb(add, pos)'),
       (r'struct Message::storeLastData\(0, master\)', 'Message_storeLastMaster(self, 0, &master)'),
       (r'struct Message::storeLastData\(0, slave\)', 'Message_storeLastSlave(self, 0, &slave)')]

def _replay(run, inputs, rp, repo, verif):
    import replay
    exe = replay.build('telegram', ['src/lib/ebus/message.cpp', 'src/lib/ebus/data.cpp', 'src/lib/ebus/datatype.cpp', 'src/lib/ebus/symbol.cpp', 'src/lib/ebus/result.cpp',
                                    'src/lib/ebus/filereader.cpp', 'src/lib/ebus/stringhelper.cpp', 'src/lib/ebus/contrib/contrib.cpp', 'src/lib/ebus/contrib/tem.cpp'], repo, verif)
    return replay.run(exe, [run['id']])


_IDS0 = (r'm_ids\[0\]\.size\(\)', 'IDS0_SIZE(m_ids)', 1)

UNIT = dict(
    replay=_replay,
    trusted=['DataField::write (m_data->write) is an environment stub: it fails, or appends the bytes of the encoded field values (ghost array, length fixed by the definition) directly after the id at the offset it is given; its own layout is decided in units fields/number',
             'SymbolString accessors: deterministic stubs mirroring model/ss_contracts.h (enforced against symbol.h in unit symbol); std::vector<vector<symbol_t>> / vector<size_t> are fixed-capacity arrays (3 chain parts, ids up to 8 bytes); time() is a clock stub'],
    defines=[('src/lib/ebus/datatype.h', ['UI_FIELD_SEPARATOR', 'MAX_POS'])],
    enums=[('src/lib/ebus/result.h', 'result_t'), (SYM_H, 'PredefinedSymbol', 'PredefinedSymbol', 'symbol_t'), ('src/lib/ebus/datatype.h', 'PartType'), ('src/lib/ebus/datatype.h', 'OutputFormat', 'OutputFormatE')],
    structs=[dict(file=SYM_H, classes=['SymbolString'], cname='SymbolString', member_types={'m_data': 'vsym'}, is_self=False)],
    cfg=dict(
        type_map={'MasterSymbolString': 'SymbolString', 'SlaveSymbolString': 'SymbolString', 'Message': 'struct Message', 'vector<symbol_t>': 'vsym', 'istringstream': 'struct iss'},
        members={'m_id', 'm_isPassive', 'm_isWrite', 'm_dstAddress', 'm_srcAddress', 'm_data', 'm_lastMasterData', 'm_lastSlaveData', 'm_lastUpdateTime', 'm_lastChangeTime',
                 'm_ids', 'm_lengths', 'm_maxTimeDiff', 'm_lastMasterDatas', 'm_lastSlaveDatas', 'm_lastMasterUpdateTimes', 'm_lastSlaveUpdateTimes'},
        methods={'size': [(r'^(id|m_id|self->m_id)$', 'vsym_size'), (r'm_ids$', 'idvec_size'), (r'm_data$', 'vsym_size'), (r'^(master|data|slave)$', 'SymbolString_size')], 'getDataSize': 'SymbolString_getDataSize', 'dataAt': 'SymbolString_dataAt',
                 'push_back': 'SymbolString_push_back', 'clear': 'SymbolString_clear', 'adjustHeader': 'SymbolString_adjustHeader', 'compareTo': 'SymbolString_compareTo', 'write': 'DF_write'},
        index=[(r'^m_id$', 'vsym_get'), (r'^id$', 'vsym_get'), (r'^m_ids$', 'idvec_at'), (r'^m_lengths$', 'lenvec_at')],
        text_subs=_TS,
    ),
    functions=[
        dict(file='src/lib/ebus/symbol.cpp', name='isMaster', cname='isMaster', self=None),
        dict(file='src/lib/ebus/symbol.cpp', name='getMasterPartIndex', cname='getMasterPartIndex', self=None),
        dict(file=SYM_H, inline_class='SymbolString', name='compareTo', cname='SymbolString_compareTo', self='SymbolString',
             pre_subs=[(r'm_data == other\.m_data', 'VSYM_EQ(m_data, other.m_data)', 1), (r'equal\(m_data\.begin\(\)\+1, m_data\.end\(\), other\.m_data\.begin\(\)\+1\)', 'VSYM_EQ_FROM1(m_data, other.m_data)', 1)],
             cfg=dict(members={'m_data', 'm_isMaster'})),
        dict(file=MSG_CPP, name='Message::checkId', sig='const MasterSymbolString& master', cname='Message_checkId', self='struct Message',
             cfg=dict(own_methods={'getIdLength': ('Message_getIdLength', 'self')})),
        dict(file=MSG_CPP, name='Message::prepareMaster', cname='Message_prepareMaster', self='struct Message',
             cfg=dict(own_methods={'prepareMasterPart': ('Message_prepareMasterPart', 'self'), 'storeLastData': ('Message_storeLastMaster', 'self')})),
        dict(file=MSG_CPP, name='Message::prepareMasterPart', cname='Message_prepareMasterPart', self='struct Message', cfg=dict(own_methods={'getIdLength': ('Message_getIdLength', 'self')})),
        dict(file=MSG_CPP, name='Message::prepareSlave', cname='Message_prepareSlave', self='struct Message'),
        dict(file=MSG_CPP, name='Message::storeLastData', sig='(size_t index, const MasterSymbolString& data)', cname='Message_storeLastMaster', self='struct Message'),
        dict(file=MSG_CPP, name='Message::storeLastData', sig='(size_t index, const SlaveSymbolString& data)', cname='Message_storeLastSlave', self='struct Message'),
        dict(file=MSG_CPP, name='Message::decodeLastData', sig='PartType part, bool leadingSeparator', cname='Message_decodeLastData', self='struct Message',
             pre_subs=[(r'if \(\(outputFormat & OF_RAWDATA\) && !\(outputFormat & OF_JSON\)\) \{.*?\] ";\s*\}', 'if ((outputFormat & OF_RAWDATA) && !(outputFormat & OF_JSON)) { env_rawdata(output); }', 1),
                       (r'ostream::pos_type startPos = output->tellp\(\);', 'long startPos = env_tellp(output);', 1), (r'output->tellp\(\) > startPos', 'env_tellp(output) > startPos', 1)],
             cfg=dict(type_map={'ostream': 'struct oss', 'OutputFormat': 'unsigned', 'ssize_t': 'long'}, methods={'read': 'DF_read', 'getCount': 'DF_getCount'},
                      own_methods={'getIdLength': ('Message_getIdLength', 'self')},
                      text_subs=[(r'DF_read\(self->m_data, self->m_lastMasterData,', 'DF_read(self->m_data, &self->m_lastMasterData,'), (r'DF_read\(self->m_data, self->m_lastSlaveData,', 'DF_read(self->m_data, &self->m_lastSlaveData,'), (r'\bssize_t\b', 'long')])),
        # chain id parsing in Message::create (fragment, rule R16): establishes the well-formedness of chains the other harnesses assume
        dict(file=MSG_CPP, name='Message::create', cname='Message_create_chainIds', self=None, ret='result_t',
             params_c=['vsym* id_p', '_Bool isPassive', 'struct idvec* chainIds_p', 'struct lenvec* chainLengths_p', 'size_t* maxLength_p'],
             fragment=dict(start=r'vector< vector<symbol_t> > chainIds;', end=r'vector<string> newTypes;', tail=' *maxLength_p = maxLength; return RESULT_OK; '),
             pre_subs=[(r'vector< vector<symbol_t> > chainIds;\s*vector<size_t> chainLengths;', 'result_t result = RESULT_OK; size_t pos = 0;', 1),
                       (r'istringstream stream\(str\);', '', 1),
                       (r'getline\(stream, str, VALUE_SEPARATOR\)', 'env_next_id()', 1),
                       (r'FileReader::trim\(&str\);', '', 1), (r'str = defaultIdPrefix\+str;', '', 1),
                       (r'size_t lengthPos = str\.find\(LENGTH_SEPARATOR\);', 'size_t lengthPos = env_length_pos();', 1),
                       (r'lengthPos != string::npos', 'lengthPos != ENV_NPOS', 1),
                       (r'parseInt\(str\.substr\(lengthPos\+1\)\.c_str\(\), 10, 0, MAX_POS, &result\)', 'env_parse_len(MAX_POS, &result)', 1),
                       (r'\*errorDescription = "[^"]*"\s*\+\s*str;', '', (3, 6)), (r'\*errorDescription = "id \(passive\)";', '', 1),
                       (r'str\.resize\(lengthPos\);', '', 1),
                       (r'vector<symbol_t> chainId = id;', 'vsym chainId = *id_p;', 1),
                       (r'result = parseId\(str, &chainId\);', 'result = env_parse_id(&chainId);', 1),
                       (r'chainIds\.front\(\)\.size\(\)', 'IDS_FRONT_SIZE(chainIds_p)', 1),
                       (r'!chainIds\.empty\(\)', '(chainIds_p->n != 0)', 1),
                       (r'chainIds\.push_back\(chainId\);', 'idvec_push(chainIds_p, &chainId);', 1),
                       (r'chainLengths\.push_back\(\(symbol_t\)chainLength\);', 'lenvec_push(chainLengths_p, (symbol_t)chainLength);', 1),
                       (r'vector<symbol_t>& front = chainIds\.front\(\);', 'const vsym* front = &chainIds_p->e[0];', 1),
                       (r'chainId\[pos\] != front\[pos\]', 'vsym_get(&chainId, pos) != vsym_get(front, pos)', 1),
                       (r'chainId\.size\(\)', 'chainId.n', (1, 6)),
                       (r'id = chainIds\.front\(\);', '*id_p = chainIds_p->e[0];', 1),
                       (r'chainIds\.size\(\) > 1', 'chainIds_p->n > 1', 1),
                       (r'id\.size\(\) > chainPrefixLength', 'id_p->n > chainPrefixLength', 1),
                       (r'id\.resize\(chainPrefixLength\);', 'id_p->n = chainPrefixLength;', 1),
                       (r'size_t chainPrefixLength = id\.size\(\);', 'size_t chainPrefixLength = id_p->n;', 1)],
             cfg=dict(text_subs=[])),
        # chained messages
        dict(file=MSG_H, inline_class='Message', name='getIdLength', cname='Message_getIdLength', self='struct Message'),
        dict(file=MSG_H, inline_class='ChainedMessage', name='getIdLength', cname='Chained_getIdLength', self='struct Message', pre_subs=[_IDS0]),
        dict(file=MSG_H, inline_class='ChainedMessage', name='getCount', cname='Chained_getCount', self='struct Message'),
        dict(file=MSG_CPP, name='Message::prepareMaster', cname='Chained_prepareMaster', self='struct Message',
             cfg=dict(own_methods={'prepareMasterPart': ('Chained_prepareMasterPart', 'self'), 'storeLastData': ('Chained_storeLastMaster', 'self')})),
        dict(file=MSG_CPP, name='ChainedMessage::checkId', sig='const MasterSymbolString& master', cname='Chained_checkId', self='struct Message',
             cfg=dict(own_methods={'getIdLength': ('Chained_getIdLength', 'self')}, static_calls={'Message::getIdLength': 'Message_getIdLength_self'})),
        dict(file=MSG_CPP, name='ChainedMessage::prepareMasterPart', cname='Chained_prepareMasterPart', self='struct Message', pre_subs=_LOC,
             cfg=dict(own_methods={'getCount': ('Chained_getCount', 'self')})),
        dict(file=MSG_CPP, name='ChainedMessage::storeLastData', sig='(const MasterSymbolString& master, const SlaveSymbolString& slave)', cname='Chained_storeLast', self='struct Message',
             cfg=dict(own_methods={'checkId': ('Chained_checkId', 'self'), 'storeLastData': ('Chained_storeLastX', 'self')})),
        dict(file=MSG_CPP, name='ChainedMessage::storeLastData', sig='(size_t index, const MasterSymbolString& data)', cname='Chained_storeLastMaster', self='struct Message',
             cfg=dict(own_methods={'combineLastParts': ('Chained_combineLastParts', 'self')})),
        dict(file=MSG_CPP, name='ChainedMessage::storeLastData', sig='(size_t index, const SlaveSymbolString& data)', cname='Chained_storeLastSlave', self='struct Message',
             cfg=dict(own_methods={'combineLastParts': ('Chained_combineLastParts', 'self')})),
        dict(file=MSG_CPP, name='ChainedMessage::combineLastParts', cname='Chained_combineLastParts', self='struct Message', pre_subs=_LOC + [_IDS0]),
    ],
    runs=[],
)


def R(id, entry, enforce=None, replace=(), loops=False, props=('C09', 'C20'), **kw):
    d = dict(id=id, entry=entry, enforce=enforce, replace=list(replace), loops=loops, props=list(props))
    d.update(kw)
    UNIT['runs'].append(d)

_D = ['SS_CAP=32']
_DS2 = ['SS_CAP=20', 'CH_CAP=2', 'ID_MAX=5', 'WCAP=4', 'LEN_MAX=2', 'SLV_MAX=3']
_DS3 = ['SS_CAP=28', 'CH_CAP=3', 'ID_MAX=6', 'WCAP=9', 'LEN_MAX=3', 'SLV_MAX=4']
_U = dict(unwind=14, unwindset={'vsym_equal.0': 33, 'vsym_equal_from1.0': 33})
_US2 = dict(unwind=12, unwindset={'vsym_equal.0': 21, 'vsym_equal_from1.0': 21})
_US3 = dict(unwind=12, unwindset={'vsym_equal.0': 29, 'vsym_equal_from1.0': 29})
_B = 'ids of up to 6 further bytes, up to 12 encoded data bytes'
R('prepare', 'h_prepare', None, defines=_D, cost=30, bounded=_B, **_U)
R('prepare_slave', 'h_prepare_slave', None, defines=_D, cost=30, bounded=_B, **_U)
R('store', 'h_store', None, defines=_D, cost=30, bounded='telegram parts of up to 32 symbols', **_U)
R('decode', 'h_decode', None, defines=_D, cost=10, **_U)
R('create_chain', 'h_create_chain', None, defines=_D, cost=20, bounded='up to 3 chain ids of up to 4 further bytes', **_U)
R('chain_prepare', 'h_chain_prepare', None, defines=_DS2, cost=30, timeout=900, bounded='chains of 2 parts, ids up to 3 further bytes, 2 data bytes per part', **_US2)
R('chain_store', 'h_chain_store', None, props=('C09', 'C08', 'C20'), defines=_DS2, cost=40, timeout=900, bounded='chains of 2 parts, ids up to 3 further bytes, 2 data / 3 slave bytes per part', **_US2)
R('chain_prepare3', 'h_chain_prepare', None, defines=_DS3, cost=200, timeout=1800, tier='thorough', bounded='chains of up to 3 parts, ids up to 4 further bytes, 3 data bytes per part', **_US3)
R('chain_store3', 'h_chain_store', None, props=('C09', 'C08', 'C20'), defines=_DS3, cost=400, timeout=2400, tier='thorough', bounded='chains of up to 3 parts, ids up to 4 further bytes, 3 data / 4 slave bytes per part', **_US3)
