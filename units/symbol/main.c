/* unit symbol: CRC, escaping, address classes, SymbolString accessors (C11, C20, part of C07)
 * Verified text = gen_funcs.inc, extracted from /repo/src/lib/ebus/symbol.cpp and symbol.h on every run. */
#include "vbase.h"
#include "vstr.h"
#include "vvec.h"
#include "vlibc.h"
int verif_errno;
vstr vstr_tmpbuf;
/* c_str() of a temporary std::string: the temporary lives until the end of the full expression */
static inline const char* vstr_c_str_tmp(vstr s) { vstr_tmpbuf = s; return vstr_tmpbuf.d; }

#include "gen_types.h"
#include "sym_spec.h"

/* ---------------- ghost state ---------------- */
symbol_t g_crc; size_t g_n;           /* calcCrc: lock-step fold of the spec over the escaped sequence */
size_t g_n0;                          /* size of m_data on entry (parse functions append) */
size_t g_k; symbol_t g_k_val;         /* arbitrary but fixed output position and the spec's byte there */
struct g_acc_t { size_t n_in, n_out; _Bool esc, err; symbol_t out_k; } g_acc;  /* unescape acceptor */

#include "gen_protos.h"

static inline void g_fold_step(const SymbolString* self) {
  g_crc = spec_crc_esc(g_crc, self->m_data.d[g_n]);
  g_n = g_n + 1;
}
/* reference acceptor for escaped sequences (written from the eBUS rule: A9 00 -> A9, A9 01 -> AA,
 * everything else after A9 is invalid, a bare AA is invalid) */
static inline void g_acc_step(symbol_t v) {
  g_acc.n_in = g_acc.n_in + 1;
  if (g_acc.err) return;
  if (g_acc.esc) {
    if (v > 1) { g_acc.err = 1; return; }
    if (g_acc.n_out == g_k) g_acc.out_k = v == 0 ? 0xA9 : 0xAA;
    g_acc.n_out = g_acc.n_out + 1;
    g_acc.esc = 0;
  } else if (v == 0xA9) {
    g_acc.esc = 1;
  } else if (v == 0xAA) {
    g_acc.err = 1;
  } else {
    if (g_acc.n_out == g_k) g_acc.out_k = v;
    g_acc.n_out = g_acc.n_out + 1;
  }
}
static inline void g_hex_step(const vstr* str, size_t i, symbol_t value) {
  if (g_n == g_k) g_k_val = value;
  g_n = g_n + 1;
}

/* ---------------- contracts ---------------- */
#include "ss_contracts.h"
#include "sym_contracts.h"

symbol_t SymbolString_calcCrc(const SymbolString* self)
__CPROVER_requires(__CPROVER_is_fresh(self, sizeof(*self)) && self->m_data.n <= SS_CAP)
__CPROVER_requires(g_n == 0 && g_crc == 0)
__CPROVER_assigns(g_crc, g_n)
__CPROVER_ensures(g_n == self->m_data.n)                 /* every symbol folded exactly once, in order */
__CPROVER_ensures(__CPROVER_return_value == g_crc);      /* result == fold of the spec step over the escaped sequence */

unsigned int parseInt(const char* str, int base, unsigned int minValue, unsigned int maxValue,
    result_t* result, size_t* length, _Bool allowIncomplete)
__CPROVER_requires(__CPROVER_is_fresh(str, VSTR_CAP + 1) && str[VSTR_CAP] == 0)
__CPROVER_requires(__CPROVER_is_fresh(result, sizeof(*result)))
__CPROVER_requires(length == NULL || __CPROVER_is_fresh(length, sizeof(*length)))
__CPROVER_requires(base == 0 || base == 10 || base == 16)
__CPROVER_assigns(*result, verif_errno; length != NULL: *length)
__CPROVER_ensures(*result == RESULT_OK || *result == RESULT_ERR_INVALID_NUM || *result == RESULT_ERR_OUT_OF_RANGE)
__CPROVER_ensures(*result == RESULT_OK ==> minValue <= __CPROVER_return_value && __CPROVER_return_value <= maxValue)
__CPROVER_ensures(*result != RESULT_OK ==> __CPROVER_return_value == 0)
/* two hex digits denote the byte 16*hi+lo (the only reading parseHex/parseHexEscaped rely on) */
__CPROVER_ensures(base == 16 && spec_hexval(str[0]) >= 0 && spec_hexval(str[1]) >= 0 && str[2] == 0 && minValue == 0 && maxValue == 0xff
                  ==> *result == RESULT_OK && __CPROVER_return_value == (unsigned)(16 * spec_hexval(str[0]) + spec_hexval(str[1])))
/* a chunk that does not start with a digit, sign or blank is never accepted */
__CPROVER_ensures(base == 16 && spec_hexval(str[0]) < 0 && str[0] != ' ' && !(str[0] >= '\t' && str[0] <= '\r') && str[0] != '+' && str[0] != '-'
                  ==> *result == RESULT_ERR_INVALID_NUM)
/* trailing garbage is rejected unless explicitly allowed */
__CPROVER_ensures(base == 10 && spec_decval(str[0]) >= 0 && str[1] != 0 && spec_decval(str[1]) < 0 && !allowIncomplete ==> *result == RESULT_ERR_INVALID_NUM)
__CPROVER_ensures(base == 10 && spec_decval(str[0]) >= 0 && str[1] == 0 ==> (*result == RESULT_OK) == (minValue <= (unsigned)spec_decval(str[0]) && (unsigned)spec_decval(str[0]) <= maxValue));

int parseSignedInt(const char* str, int base, int minValue, int maxValue,
    result_t* result, size_t* length, _Bool allowIncomplete)
__CPROVER_requires(__CPROVER_is_fresh(str, VSTR_CAP + 1) && str[VSTR_CAP] == 0)
__CPROVER_requires(__CPROVER_is_fresh(result, sizeof(*result)))
__CPROVER_requires(length == NULL || __CPROVER_is_fresh(length, sizeof(*length)))
__CPROVER_requires(base == 0 || base == 10 || base == 16)
__CPROVER_assigns(*result, verif_errno; length != NULL: *length)
__CPROVER_ensures(*result == RESULT_OK || *result == RESULT_ERR_INVALID_NUM || *result == RESULT_ERR_OUT_OF_RANGE)
__CPROVER_ensures(*result == RESULT_OK ==> minValue <= __CPROVER_return_value && __CPROVER_return_value <= maxValue)
__CPROVER_ensures(*result != RESULT_OK ==> __CPROVER_return_value == 0)
__CPROVER_ensures(base == 10 && str[0] == '-' && spec_decval(str[1]) >= 0 && str[2] == 0
                  ==> (*result == RESULT_OK) == (minValue <= -spec_decval(str[1]) && -spec_decval(str[1]) <= maxValue)
                      && (*result == RESULT_OK ==> __CPROVER_return_value == -spec_decval(str[1])));

result_t SymbolString_parseHexEscaped(SymbolString* self, const vstr* str)
__CPROVER_requires(__CPROVER_is_fresh(self, sizeof(*self)) && __CPROVER_is_fresh(str, sizeof(*str)))
__CPROVER_requires(vstr_valid(str) && self->m_data.n <= SS_CAP && self->m_data.n + str->n / 2 + 1 <= SS_CAP)
__CPROVER_requires(g_n0 == self->m_data.n && g_acc.n_in == 0 && g_acc.n_out == 0 && !g_acc.esc && !g_acc.err)
__CPROVER_assigns(self->m_data.n, __CPROVER_object_whole(self->m_data.d), vstr_tmpbuf, g_acc, verif_errno)
/* OK  <=>  every chunk parsed and the acceptor accepted the whole sequence without a dangling escape */
__CPROVER_ensures(__CPROVER_return_value == RESULT_OK ==> !g_acc.err && !g_acc.esc && g_acc.n_in == (str->n + 1) / 2)
__CPROVER_ensures(__CPROVER_return_value == RESULT_OK ==> self->m_data.n == g_n0 + g_acc.n_out)
__CPROVER_ensures(__CPROVER_return_value == RESULT_OK && g_k < g_acc.n_out ==> self->m_data.d[g_n0 + g_k] == g_acc.out_k)
/* acceptor error (bare AA, A9 followed by >01) or dangling A9 at the end => RESULT_ERR_ESC, never OK */
__CPROVER_ensures(g_acc.err ==> __CPROVER_return_value == RESULT_ERR_ESC)
__CPROVER_ensures(!g_acc.err && g_acc.esc && g_acc.n_in == (str->n + 1) / 2 ==> __CPROVER_return_value == RESULT_ERR_ESC)
__CPROVER_ensures(__CPROVER_return_value == RESULT_OK || __CPROVER_return_value == RESULT_ERR_ESC
                  || __CPROVER_return_value == RESULT_ERR_INVALID_NUM || __CPROVER_return_value == RESULT_ERR_OUT_OF_RANGE);

result_t SymbolString_parseHex(SymbolString* self, const vstr* str)
__CPROVER_requires(__CPROVER_is_fresh(self, sizeof(*self)) && __CPROVER_is_fresh(str, sizeof(*str)))
__CPROVER_requires(vstr_valid(str) && self->m_data.n <= SS_CAP && self->m_data.n + str->n / 2 + 1 <= SS_CAP)
__CPROVER_requires(g_n0 == self->m_data.n && g_n == 0)
__CPROVER_assigns(self->m_data.n, __CPROVER_object_whole(self->m_data.d), vstr_tmpbuf, g_n, g_k_val, verif_errno)
__CPROVER_ensures(__CPROVER_return_value == RESULT_OK ==> self->m_data.n == g_n0 + (str->n + 1) / 2 && g_n == (str->n + 1) / 2)
__CPROVER_ensures(__CPROVER_return_value == RESULT_OK && g_k < g_n ==> self->m_data.d[g_n0 + g_k] == g_k_val)
__CPROVER_ensures(__CPROVER_return_value == RESULT_OK || __CPROVER_return_value == RESULT_ERR_INVALID_NUM || __CPROVER_return_value == RESULT_ERR_OUT_OF_RANGE);

#include "gen_funcs.inc"

/* ---------------- harnesses (entry points; all inputs nondeterministic) ---------------- */

void h_updateCrc(void) { symbol_t v = nondet_sym(), c = nondet_sym(); SymbolString_updateCrc(v, &c); CANARY("updateCrc returns"); }

void h_calcCrc(void) {
  SymbolString s; g_n = 0; g_crc = 0;
  symbol_t r = SymbolString_calcCrc(&s);
  CANARY("calcCrc returns");
}
void h_getMasterPartIndex(void) { getMasterPartIndex(nondet_sym()); CANARY("returns"); }
void h_isMaster(void) { isMaster(nondet_sym()); CANARY("returns"); }
void h_isSlaveMaster(void) { isSlaveMaster(nondet_sym()); CANARY("returns"); }
void h_isValidAddress(void) { isValidAddress(nondet_sym(), nondet_bool()); CANARY("returns"); }
void h_getSlaveAddress(void) { getSlaveAddress(nondet_sym()); CANARY("returns"); }
void h_getMasterAddress(void) { getMasterAddress(nondet_sym()); CANARY("returns"); }
void h_getMasterNumber(void) { getMasterNumber(nondet_sym()); CANARY("returns"); }

/* lemmas over the address contracts (pure statements about the spec functions the contracts use) */
void h_addr_lemmas(void) {
  unsigned count = 0;
  for (unsigned a = 0; a < 256; a++) { if (spec_is_master((symbol_t)a)) count++; }
  __CPROVER_assert(count == 25, "exactly 25 master addresses");
  symbol_t a = nondet_sym(), b = nondet_sym();
  unsigned na = spec_master_number(a), nb = spec_master_number(b);
  __CPROVER_assert((na >= 1 && na <= 25) == spec_is_master(a), "master number in 1..25 iff master");
  __CPROVER_assert(!spec_is_master(a) ==> na == 0, "non-master has number 0");
  __CPROVER_assert(spec_is_master(a) && spec_is_master(b) && na == nb ==> a == b, "master number injective on masters");
  /* arbitration priority: lower low nibble class wins, then lower high nibble; number order is that order */
  __CPROVER_assert(spec_is_master(a) && spec_is_master(b) ==>
     ((na < nb) == (spec_part_index(a & 0x0F) < spec_part_index(b & 0x0F) ||
                   (spec_part_index(a & 0x0F) == spec_part_index(b & 0x0F) && spec_part_index(a >> 4) < spec_part_index(b >> 4)))),
     "master number order equals arbitration priority order (priority class, then sub-address)");
  __CPROVER_assert(spec_is_master(a) && spec_is_master(b) ==> ((na < nb) == ((a & 0x0F) < (b & 0x0F) || ((a & 0x0F) == (b & 0x0F) && a < b))),
     "master number order equals numeric order of (low nibble, address)");
  /* +5 mapping: bijection masters -> master-slaves, inverse -5, image valid and never a master */
  symbol_t s = (symbol_t)(a + 5);
  __CPROVER_assert(spec_is_master(a) ==> !spec_is_master(s) && s != 0xAA && s != 0xA9 && s != 0xFE, "master+5 is a valid non-master address");
  __CPROVER_assert(spec_is_master(a) && spec_is_master(b) && (symbol_t)(a + 5) == (symbol_t)(b + 5) ==> a == b, "+5 injective");
  __CPROVER_assert(!spec_is_master(0xAA) && !spec_is_master(0xA9) && !spec_is_master(0xFE), "SYN/ESC/BROADCAST are not masters");
  __CPROVER_assert(!spec_is_master((symbol_t)(0xAA - 5)) && !spec_is_master((symbol_t)(0xA9 - 5)), "SYN/ESC are not master-slaves");
  CANARY("lemmas reached");
}

void h_parseInt(void) {
  char str[VSTR_CAP + 1]; result_t res; size_t len; _Bool withlen = nondet_bool();
  verif_errno = nondet_int();      /* [C12] errno as left behind by any earlier conversion in the thread */
  parseInt(str, nondet_int(), nondet_uint(), nondet_uint(), &res, withlen ? &len : NULL, nondet_bool());
  CANARY("parseInt returns");
}
void h_parseSignedInt(void) {
  char str[VSTR_CAP + 1]; result_t res; size_t len; _Bool withlen = nondet_bool();
  verif_errno = nondet_int();      /* [C12] errno as left behind by any earlier conversion in the thread */
  parseSignedInt(str, nondet_int(), nondet_int(), nondet_int(), &res, withlen ? &len : NULL, nondet_bool());
  CANARY("parseSignedInt returns");
}
void h_parseHexEscaped(void) {
  SymbolString s; vstr str; g_k = nondet_size();
  g_n0 = s.m_data.n; g_acc.n_in = 0; g_acc.n_out = 0; g_acc.esc = 0; g_acc.err = 0;
  result_t r = SymbolString_parseHexEscaped(&s, &str);
  if (r == RESULT_OK) { CANARY("parseHexEscaped returns OK"); }
  if (r == RESULT_ERR_ESC) { CANARY("parseHexEscaped returns ERR_ESC"); }
}
#define H_SS(name, call) void h_ss_##name(void) { SymbolString s; size_t index = nondet_size(); symbol_t value = nondet_sym(); call; CANARY(#name " returns"); }
H_SS(at_nc, SymbolString_at_nc(&s, index))
H_SS(at_nc_inb, SymbolString_at_nc_inb(&s, index))
H_SS(at, SymbolString_at(&s, index))
H_SS(push_back, SymbolString_push_back(&s, value))
H_SS(size, SymbolString_size(&s))
H_SS(clear, SymbolString_clear(&s))
H_SS(adjustHeader, SymbolString_adjustHeader(&s))
H_SS(getDataSize, SymbolString_getDataSize(&s))
H_SS(getCalculatedDataSize, SymbolString_getCalculatedDataSize(&s))
H_SS(dataAt, SymbolString_dataAt(&s, index))
H_SS(dataAt_nc, SymbolString_dataAt_nc(&s, index))
H_SS(isComplete, SymbolString_isComplete(&s))
void h_parseHex(void) {
  SymbolString s; vstr str; g_k = nondet_size();
  g_n0 = s.m_data.n; g_n = 0;
  result_t r = SymbolString_parseHex(&s, &str);
  if (r == RESULT_OK) { CANARY("parseHex returns OK"); }
}
