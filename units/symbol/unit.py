SS_CAP = 264
SYM_CPP = 'src/lib/ebus/symbol.cpp'
SYM_H = 'src/lib/ebus/symbol.h'

_acc = dict(file=SYM_H, inline_class='SymbolString', self='SymbolString')

def _replay(run, inputs, rp, repo, verif):
    import replay
    exe = replay.build('symbol', ['src/lib/ebus/symbol.cpp', 'src/lib/ebus/result.cpp'], repo, verif)
    what = 'addr' if run['id'].startswith('addr_') else run['id']
    return replay.run(exe, [what])


UNIT = dict(
    replay=_replay,
    trusted=['C model of strtoul/strtol (model/vlibc.h): ISO C semantics incl. white space, sign, 0x prefix, ERANGE',
             'fixed-capacity models of std::vector<symbol_t> (SS_CAP=264) and std::string (VSTR_CAP per run); exceeding the capacity is an asserted obligation'],
    enums=[('src/lib/ebus/result.h', 'result_t'), (SYM_H, 'PredefinedSymbol', 'PredefinedSymbol', 'symbol_t')],
    structs=[dict(file=SYM_H, classes=['SymbolString'], cname='SymbolString', member_types={'m_data': 'vsym'})],
    tables=[(SYM_CPP, 'CRC_LOOKUP_TABLE')],
    cfg=dict(
        type_map={'string': 'vstr', 'SymbolString': 'SymbolString', 'MasterSymbolString': 'SymbolString', 'SlaveSymbolString': 'SymbolString'},
        methods={
            'size': [(r'm_data$', 'vsym_size'), (r'^str$', 'vstr_size')],
            'push_back': [(r'm_data$', 'vsym_push_back')],
            'resize': [(r'm_data$', 'vsym_resize')],
            'clear': [(r'm_data$', 'vsym_clear')],
            'data': [(r'm_data$', 'vsym_data')],
            'substr': 'vstr_substr',
            'c_str': 'vstr_c_str',
        },
        index=[(r'^m_data$', 'vsym_ref')],
        ref_returns=['vsym_ref'],
        defaults={'parseInt': (7, ['NULL', 'false']), 'vsym_resize': (3, ['0'])},
        own_methods={'updateCrc': ('SymbolString_updateCrc', 'static')},
        static_calls={},
        text_subs=[(r'vstr_c_str\(&\((vstr_substr\([^()]*\))\)\)', r'vstr_c_str_tmp(\1)'),
                   (r'vstr_substr\((\w+), (\w+), 2\)', r'vstr_substr_short(\1, \2, 2)')],
    ),
    functions=[
        dict(file=SYM_CPP, name='parseInt', cname='parseInt', self=None),
        dict(file=SYM_CPP, name='parseSignedInt', cname='parseSignedInt', self=None),
        dict(file=SYM_CPP, name='SymbolString::updateCrc', cname='SymbolString_updateCrc', self=None),
        dict(file=SYM_CPP, name='SymbolString::parseHex', cname='SymbolString_parseHex', self='SymbolString',
             must_fire={'R5d': 2},
             loops={0: '__CPROVER_assigns(i, result, self->m_data.n, __CPROVER_object_whole(self->m_data.d), vstr_tmpbuf, g_n, g_k_val, verif_errno)\n'
                       '__CPROVER_loop_invariant(i % 2 == 0 && i <= str->n + 1 && self->m_data.n == g_n0 + i / 2 && g_n == i / 2 && self->m_data.n <= SS_CAP)\n'
                       '__CPROVER_loop_invariant(g_k < g_n ==> self->m_data.d[g_n0 + g_k] == g_k_val)\n'
                       '__CPROVER_decreases(str->n + 2 - i)'},
             anchors=[(r'vsym_push_back\(&self->m_data, value\);', 'before', 'g_hex_step(str, i, value);')]),
        dict(file=SYM_CPP, name='SymbolString::parseHexEscaped', cname='SymbolString_parseHexEscaped', self='SymbolString',
             must_fire={'R5d': 2},
             loops={0: '__CPROVER_assigns(i, result, inEscape, self->m_data.n, __CPROVER_object_whole(self->m_data.d), vstr_tmpbuf, g_acc, verif_errno)\n'
                       '__CPROVER_loop_invariant(i % 2 == 0 && i <= str->n + 1 && g_acc.n_in == i / 2 && self->m_data.n == g_n0 + g_acc.n_out && self->m_data.n <= SS_CAP && g_acc.n_out <= g_acc.n_in)\n'
                       '__CPROVER_loop_invariant(inEscape == g_acc.esc && !g_acc.err)\n'
                       '__CPROVER_loop_invariant(g_k < g_acc.n_out ==> self->m_data.d[g_n0 + g_k] == g_acc.out_k)\n'
                       '__CPROVER_decreases(str->n + 2 - i)'},
             anchors=[(r'if \(result != RESULT_OK\) \{\s*return result;\s*\}', 'after', 'g_acc_step(value);')]),
        dict(file=SYM_CPP, name='SymbolString::calcCrc', cname='SymbolString_calcCrc', self='SymbolString',
             cfg=dict(index=[(r'^m_data$', 'vsym_get')]),
             loops={0: '__CPROVER_assigns(i, crc, g_crc, g_n)\n'
                       '__CPROVER_loop_invariant(i <= self->m_data.n && g_n == i && crc == g_crc)\n'
                       '__CPROVER_decreases(self->m_data.n - i)'},
             anchors=[(r'symbol_t value = vsym_get\(&self->m_data, i\);', 'before', 'g_fold_step(self);')]),
        dict(file=SYM_CPP, name='getMasterPartIndex', cname='getMasterPartIndex', self=None),
        dict(file=SYM_CPP, name='isMaster', cname='isMaster', self=None),
        dict(file=SYM_CPP, name='isSlaveMaster', cname='isSlaveMaster', self=None),
        dict(file=SYM_CPP, name='getSlaveAddress', cname='getSlaveAddress', self=None),
        dict(file=SYM_CPP, name='getMasterAddress', cname='getMasterAddress', self=None),
        dict(file=SYM_CPP, name='getMasterNumber', cname='getMasterNumber', self=None),
        dict(file=SYM_CPP, name='isValidAddress', cname='isValidAddress', self=None),
        # inline accessors of symbol.h
        dict(_acc, name='operator[]', sig='(const size_t index)', cname='SymbolString_at_nc'),
    dict(_acc, name='operator[]', sig='(const size_t index)', cname='SymbolString_at_nc_inb'),
        dict(_acc, name='operator[]', sig='(size_t index) const', cname='SymbolString_at', cfg=dict(index=[(r'^m_data$', 'vsym_get')])),
        dict(_acc, name='push_back', cname='SymbolString_push_back'),
        dict(_acc, name='size', cname='SymbolString_size'),
        dict(_acc, name='adjustHeader', cname='SymbolString_adjustHeader'),
        dict(_acc, name='getDataSize', cname='SymbolString_getDataSize', cfg=dict(index=[(r'^m_data$', 'vsym_get')])),
        dict(_acc, name='getCalculatedDataSize', cname='SymbolString_getCalculatedDataSize'),
        dict(_acc, name='dataAt', sig='(size_t index) const', cname='SymbolString_dataAt', cfg=dict(index=[(r'^m_data$', 'vsym_get')])),
        dict(_acc, name='dataAt', sig='(size_t index)', nth=1, cname='SymbolString_dataAt_nc'),
        dict(_acc, name='isComplete', cname='SymbolString_isComplete', cfg=dict(index=[(r'^m_data$', 'vsym_get')])),
        dict(_acc, name='clear', cname='SymbolString_clear'),
    ],
    runs=[],
)

def R(id, entry, enforce=None, replace=(), loops=False, props=('C11', 'C20'), **kw):
    d = dict(id=id, entry=entry, enforce=enforce, replace=list(replace), loops=loops, props=list(props))
    d.update(kw)
    UNIT['runs'].append(d)

R('updateCrc', 'h_updateCrc', 'SymbolString_updateCrc', cost=2)
R('calcCrc', 'h_calcCrc', 'SymbolString_calcCrc', ['SymbolString_updateCrc'], loops=True, cost=5)
R('addr_getMasterPartIndex', 'h_getMasterPartIndex', 'getMasterPartIndex', cost=1)
R('addr_isMaster', 'h_isMaster', 'isMaster', ['getMasterPartIndex'], cost=1)
R('addr_isSlaveMaster', 'h_isSlaveMaster', 'isSlaveMaster', ['isMaster'], cost=1)
R('addr_isValidAddress', 'h_isValidAddress', 'isValidAddress', cost=1)
R('addr_getSlaveAddress', 'h_getSlaveAddress', 'getSlaveAddress', ['isMaster', 'isValidAddress'], cost=1)
R('addr_getMasterAddress', 'h_getMasterAddress', 'getMasterAddress', ['isMaster'], cost=1)
R('addr_getMasterNumber', 'h_getMasterNumber', 'getMasterNumber', ['getMasterPartIndex'], cost=1)
R('addr_lemmas', 'h_addr_lemmas', None, unwind=257, cost=3)
R('parseInt', 'h_parseInt', 'parseInt', defines=['VSTR_CAP=6', 'VLIBC_MAXLEN=6'], unwind=8, props=('C11', 'C07', 'C12', 'C20'), cost=10)
R('parseSignedInt', 'h_parseSignedInt', 'parseSignedInt', defines=['VSTR_CAP=6', 'VLIBC_MAXLEN=6'], unwind=8, props=('C07', 'C12', 'C20'), cost=10)
R('parseHexEscaped', 'h_parseHexEscaped', 'SymbolString_parseHexEscaped', ['parseInt'], loops=True,
  defines=['VSTR_CAP=64', 'VLIBC_MAXLEN=4'], cost=30)
R('parseHex', 'h_parseHex', 'SymbolString_parseHex', ['parseInt'], loops=True,
  defines=['VSTR_CAP=64', 'VLIBC_MAXLEN=4'], cost=30)

for _n in ('at_nc', 'at_nc_inb', 'at', 'push_back', 'size', 'clear', 'adjustHeader', 'getDataSize', 'getCalculatedDataSize', 'dataAt', 'dataAt_nc', 'isComplete'):
    R('ss_' + _n, 'h_ss_' + _n, 'SymbolString_' + _n, unwind=SS_CAP + 1 if _n in ('at_nc', 'adjustHeader', 'dataAt_nc') else None,
      props=('C09', 'C20', 'C01', 'C02', 'C05', 'C06', 'C10', 'C15'), cost=8)
