BH_CPP = 'src/ebusd/bushandler.cpp'
SYM_H = 'src/lib/ebus/symbol.h'

UNIT = dict(
    trusted=['std::deque is abstracted to its element count (the elements themselves come from an environment stub); Message::storeLastData / decodeLastData / derive, MessageMap::add / getScanMessage, prepare() and the BusHandler scan result bookkeeping are environment stubs with arbitrary results'],
    enums=[('src/lib/ebus/result.h', 'result_t'), (SYM_H, 'PredefinedSymbol', 'PredefinedSymbol', 'symbol_t'), ('src/lib/ebus/datatype.h', 'PartType'), ('src/lib/ebus/datatype.h', 'OutputFormat', 'OutputFormatE')],
    structs=[dict(file=SYM_H, classes=['SymbolString'], cname='SymbolString', member_types={'m_data': 'vsym'}, is_self=False)],
    cfg=dict(
        type_map={'MasterSymbolString': 'SymbolString', 'SlaveSymbolString': 'SymbolString', 'Message': 'struct Message', 'string': 'int'},
        members={'m_message', 'm_index', 'm_master', 'm_busHandler', 'm_messageMap', 'm_slaves', 'm_messages', 'm_allMessages', 'm_deleteOnFinish', 'm_result', 'm_notifyIndex'},
        methods={'storeLastData': 'Message_storeLastData', 'getCount': 'Message_getCount', 'empty': 'cnt_empty', 'pop_front': 'cnt_pop_front', 'clear': 'cnt_clear', 'front': 'cnt_front', 'size': 'cnt_size',
                 'setScanResult': 'BH_setScanResult', 'setScanFinished': 'BH_setScanFinished', 'getScanMessage': 'MM_getScanMessage', 'getDstAddress': 'Message_getDstAddress', 'derive': 'Message_derive',
                 'add': 'MM_add', 'decodeLastData': 'Message_decodeLastData'},
        index=[(r'^m_master$', 'SymbolString_at')],
        own_methods={'prepare': ('REQ_prepare', 'self')},
        defaults={'MM_getScanMessage': (2, ['SYN'])},
    ),
    functions=[
        dict(file=BH_CPP, name='PollRequest::notify', cname='PollRequest_notify', self='struct REQ'),
        dict(file=BH_CPP, name='ScanRequest::notify', cname='ScanRequest_notify', self='struct REQ',
             pre_subs=[(r'ostringstream output;', 'int output = 0;', 1), (r'string str = output\.str\(\);', 'int str = output;', 1),
                       (r'm_busHandler->setScanResult\(dstAddress, 0, ""\);', 'm_busHandler->setScanResult(dstAddress, 0, 0);', 1)]),
    ],
    runs=[],
)


def R(id, entry, enforce=None, replace=(), loops=False, props=('C04', 'C20'), **kw):
    d = dict(id=id, entry=entry, enforce=enforce, replace=list(replace), loops=loops, props=list(props))
    d.update(kw)
    UNIT['runs'].append(d)

R('poll_notify', 'h_poll_notify', None, unwind=6, defines=['SS_CAP=8'], cost=10)
R('scan_notify', 'h_scan_notify', None, unwind=6, defines=['SS_CAP=8'], cost=10)
