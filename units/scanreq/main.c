/* unit scanreq: restart decisions of poll and scan requests (C04): PollRequest::notify / ScanRequest::notify.  Back end B2. */
#include "vbase.h"
#include "vvec.h"
#include "gen_types.h"
#define CMAX 4      /* parts of a (chained) message */
#define SMAX 8      /* slaves left to scan */
#define MMAX 4      /* secondary scan messages */
struct Message { size_t count; symbol_t dst; };
struct cnt { size_t n; };
struct BH { int dummy; }; struct MM { int dummy; };
struct REQ { struct Message* m_message; size_t m_index; SymbolString m_master; struct BH* m_busHandler; struct MM* m_messageMap; struct cnt m_slaves, m_messages, m_allMessages;
  _Bool m_deleteOnFinish; result_t m_result; size_t m_notifyIndex; };
static inline symbol_t SymbolString_at(const SymbolString* s, size_t i) { return i < s->m_data.n ? s->m_data.d[i < SS_CAP ? i : 0] : (symbol_t)0xAA; }
static inline _Bool cnt_empty(const struct cnt* c) { return c->n == 0; }
static inline size_t cnt_size(const struct cnt* c) { return c->n; }
static inline void cnt_pop_front(struct cnt* c) { __CPROVER_assert(c->n > 0, "[C20] pop_front() on a non-empty deque"); if (c->n > 0) c->n = c->n - 1; }
static inline void cnt_clear(struct cnt* c) { c->n = 0; }
struct Message g_generic, g_specific, g_derived, g_next; _Bool g_has_specific; unsigned g_finished_calls, g_prepare_calls; int g_last_prepare;
static inline struct Message* cnt_front(const struct cnt* c) { __CPROVER_assert(c->n > 0, "[C20] front() on a non-empty deque"); return &g_next; }
#define Message_storeLastData(m, i, x) env_store(m, i)
static inline result_t env_store(struct Message* m, size_t index) { __CPROVER_assert(m != NULL, "[C20] message present"); int r = nondet_int(); __CPROVER_assume(r <= 1 && r >= -30); return (result_t)r; }
static inline size_t Message_getCount(const struct Message* m) { return m->count; }
static inline symbol_t Message_getDstAddress(const struct Message* m) { return m->dst; }
static inline struct Message* Message_derive(struct Message* m, symbol_t dst, _Bool x) { g_derived = *m; g_derived.dst = dst; return &g_derived; }
static inline struct Message* MM_getScanMessage(struct MM* mm, symbol_t dst) { return dst == 0xAA ? &g_generic : (g_has_specific ? &g_specific : NULL); }
static inline void MM_add(struct MM* mm, _Bool byName, struct Message* m) { }
#define Message_decodeLastData(m, a, b, c, d, e, f) env_decode(m)
static inline result_t env_decode(struct Message* m) { int r = nondet_int(); __CPROVER_assume(r <= 1 && r >= -30); return (result_t)r; }
static inline void BH_setScanResult(struct BH* b, symbol_t dst, size_t index, int str) { }
static inline void BH_setScanFinished(struct BH* b) { g_finished_calls = g_finished_calls + 1; }
static inline result_t REQ_prepare(struct REQ* r, symbol_t master) { g_prepare_calls = g_prepare_calls + 1; __CPROVER_assert(r->m_index < r->m_message->count, "[C04,C09] the next telegram is prepared for an existing part"); int v = nondet_int(); __CPROVER_assume(v <= 1 && v >= -30); g_last_prepare = v; return (result_t)v; }
#include "gen_protos.h"
#include "gen_funcs.inc"

struct REQ nondet_REQ(void); SymbolString nondet_SS(void); struct Message nondet_Message(void);
#define MSG_OK(m) ((m)->count >= 1 && (m)->count <= CMAX)
void h_poll_notify(void) {
  struct REQ r = nondet_REQ(); struct Message m = nondet_Message(); SymbolString slave = nondet_SS(); int res = nondet_int();
  r.m_message = &m; g_prepare_calls = 0;
  __CPROVER_assume(MSG_OK(&m) && r.m_index < m.count && res <= 0 && res >= -30 && r.m_master.m_data.n <= SS_CAP && slave.m_data.n <= SS_CAP);
  size_t i0 = r.m_index;
  _Bool again = PollRequest_notify(&r, (result_t)res, &slave);
  __CPROVER_assert(!again || (res == RESULT_OK && r.m_index == i0 + 1 && r.m_index < m.count && g_prepare_calls == 1 && g_last_prepare >= RESULT_OK), "[C04] a poll request asks for a restart only after a successful exchange, for the next part of a chained message, with its telegram prepared");
  __CPROVER_assert(again || r.m_index <= i0 + 1, "[C04] no part is skipped");
  __CPROVER_assert(res != RESULT_ERR_NO_SIGNAL || !again, "[C04] no restart is asked for when the signal is lost (the queue is drained then)");
  if (again) { CANARY("next part"); }
  if (res == RESULT_ERR_NO_SIGNAL) { CANARY("signal lost"); }
}
static inline unsigned long measure(const struct REQ* r) { return (((unsigned long)r->m_slaves.n * (MMAX + 1) + r->m_messages.n) * 2 + (r->m_message == &g_generic ? 1 : 0)) * (CMAX + 1) + (r->m_message->count - r->m_index); }
void h_scan_notify(void) {
  struct REQ r = nondet_REQ(); SymbolString slave = nondet_SS(); int res = nondet_int(); struct Message cur = nondet_Message(); _Bool cur_is_generic = nondet_bool();
  g_generic = nondet_Message(); g_specific = nondet_Message(); g_next = nondet_Message(); g_has_specific = nondet_bool(); g_finished_calls = 0; g_prepare_calls = 0;
  r.m_message = cur_is_generic ? &g_generic : &cur;
  __CPROVER_assume(MSG_OK(&cur) && MSG_OK(&g_generic) && MSG_OK(&g_specific) && MSG_OK(&g_next) && r.m_index < r.m_message->count && res <= 0 && res >= -30);
  __CPROVER_assume(r.m_slaves.n <= SMAX && r.m_allMessages.n >= 1 && r.m_allMessages.n <= MMAX && r.m_messages.n <= r.m_allMessages.n && r.m_master.m_data.n <= SS_CAP && slave.m_data.n <= SS_CAP && r.m_notifyIndex <= 1);
  unsigned long m0 = measure(&r);
  _Bool again = ScanRequest_notify(&r, (result_t)res, &slave);
  if (again) {
    __CPROVER_assert(measure(&r) < m0, "[C04] every restart of a scan request makes progress (slaves left, messages left, generic -> specific scan message, parts left): the scan ends after finitely many restarts");
    __CPROVER_assert(g_finished_calls == 0 && res != RESULT_ERR_NO_SIGNAL && g_last_prepare >= RESULT_OK && r.m_index < r.m_message->count, "[C04] a restart is asked for only with a prepared telegram for an existing part, never when the signal is lost");
    CANARY("restart");
    if (r.m_messages.n == r.m_allMessages.n - 1 && r.m_allMessages.n >= 2) { CANARY("next slave, messages refilled"); }
  } else {
    __CPROVER_assert(g_finished_calls == 1, "[C04] a scan request that does not restart reports the scan as finished exactly once (it is not left in limbo)");
    CANARY("finished");
    if (res == RESULT_ERR_NO_SIGNAL && r.m_slaves.n >= 2) { CANARY("signal lost with slaves left"); }
  }
}
