/* unit handler: one-step verification of DirectProtocolHandler::handleReceive / handleSend / setState / messageCompleted
 * against ghost monitors (C01 reception, C02 wire format, C03 entitlement, C04 request life cycle, C15 slave role, C20).
 * Back end B2 (harness-enforced step contracts): assume INV && REL; one call; assert INV && REL' and the stub preconditions. */
#include <math.h>
#include "vbase.h"
#include "vvec.h"
#include "vhandler.h"
#include "sym_spec.h"

#include "env_pre.h"
#include "gen_types.h"
#include "ss_stubs.h"
#include "env.h"

struct rx_t g_rx; unsigned g_reported, g_status_calls, g_recv_calls, g_send_calls, g_start_calls, g_notify_calls;
struct BusRequest* g_q_head; struct BusRequest* g_q_second; int g_last_notify_result; int g_step_role;
symbol_t g_sent_symbol, g_start_master, g_last_recv_symbol; int g_last_recv_result, g_last_arb; unsigned g_last_recv_timeout;
struct DPH* g_self;

#include "gen_protos.h"
#include "monitors.h"
#include "gen_funcs.inc"
#include "harness.h"
