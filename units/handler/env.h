/* Environment of the protocol handler: device, request queue, requests, listener, clock - as C stubs of the form
 * assert(precondition); nondeterministic effect within the interface contract; ghost monitor update.
 * The preconditions of these stubs carry the obligations of C01 (reporting), C02 (wire format), C03 (entitlement)
 * and C04 (request life cycle); their nondeterministic results are the trusted environment contracts. */
#ifndef HANDLER_ENV_H
#define HANDLER_ENV_H




#include "rx_spec.h"
extern int g_step_role;   /* role of ebusd (0 passive, 1 active, 2 answering) in the telegram at the start of the step */
extern unsigned g_reported;             /* number of notifyProtocolMessage calls in this step */

/* ---------------- requests and their life cycle (C04) ---------------- */
enum req_life { RL_FRESH, RL_QUEUED, RL_CURRENT, RL_FINISHED, RL_DELETED };
struct BusRequest { SymbolString master; unsigned busLostRetries; _Bool deleteOnFinish; int life; unsigned notified; _Bool restart; };
extern struct BusRequest* g_q_head;       /* head of m_nextRequests (NULL: empty); the rest of the queue is abstract */
extern int g_last_notify_result; extern unsigned g_notify_calls;

static inline const SymbolString* BusRequest_getMaster(struct BusRequest* r) {
  __CPROVER_assert(r != NULL && (r->life == RL_QUEUED || r->life == RL_CURRENT), "[C04] request is alive when the bus thread reads it (not finished/deleted)");
  return &r->master;
}
static inline unsigned BusRequest_getBusLostRetries(struct BusRequest* r) {
  __CPROVER_assert(r != NULL && r->life == RL_CURRENT, "[C04] request is owned by the bus thread when its retry counter is read");
  return r->busLostRetries;
}
static inline void BusRequest_incrementBusLostRetries(struct BusRequest* r) { __CPROVER_assert(r->life == RL_CURRENT, "[C04] request owned"); r->busLostRetries = r->busLostRetries + 1; }
static inline void BusRequest_resetBusLostRetries(struct BusRequest* r) { __CPROVER_assert(r->life == RL_CURRENT, "[C04] request owned"); r->busLostRetries = 0; }
static inline _Bool BusRequest_deleteOnFinish(struct BusRequest* r) { __CPROVER_assert(r->life == RL_CURRENT, "[C04] request owned"); return r->deleteOnFinish; }
static inline _Bool BusRequest_notify(struct BusRequest* r, result_t result, const SymbolString* slave) {
  __CPROVER_assert(r != NULL && r->life == RL_CURRENT, "[C04] only the current request is completed");
  __CPROVER_assert(r->notified == 0, "[C04] a request is completed at most once per submission");
  r->notified = r->notified + 1; g_last_notify_result = result; g_notify_calls = g_notify_calls + 1;
  __CPROVER_assert(result <= RESULT_OK, "[C04] a request is completed with a definite result: success or an error code, never an in-progress code (RESULT_CONTINUE, RESULT_EMPTY)");
  __CPROVER_assert((result == RESULT_OK) == (g_rx.emit && g_step_role == 1), "[C02] a request completes successfully iff its exchange on the bus was valid (CRC echoed / ACK received / CRC-correct response acknowledged)");
  if (result == RESULT_OK) {
    __CPROVER_assert(slave->m_data.n == ((g_rx.cmd[1] == 0xFE || rx_is_master(g_rx.cmd[1])) ? 0 : g_rx.rn), "[C02] a successful request carries the slave response seen on the bus (length)");
    __CPROVER_assert(__CPROVER_forall { size_t i; (i < SS_CAP) ==> (i < slave->m_data.n ==> slave->m_data.d[i] == g_rx.res[i]) }, "[C02] a successful request carries the unescaped slave response seen on the bus");
  }
  r->restart = nondet_bool();
  return r->restart;
}
static inline void BusRequest_delete(struct BusRequest* r) {
  __CPROVER_assert(r != NULL && r->life == RL_CURRENT && r->notified == 1 && r->deleteOnFinish && (!r->restart || g_last_notify_result == RESULT_ERR_NO_SIGNAL), "[C04] only a completed self-deleting request is deleted, once");
  r->life = RL_DELETED;
}
static inline struct BusRequest* NextQ_peek(Queue* q) { return g_q_head; }
static inline _Bool NextQ_remove(Queue* q, struct BusRequest* r) {
  __CPROVER_assert(r != NULL, "remove of a non-null request");
  if (r == g_q_head && r->life == RL_QUEUED) { g_q_head = NULL; r->life = RL_CURRENT; r->notified = 0; return 1; }
  return 0;
}
static inline void NextQ_push(Queue* q, struct BusRequest* r) {
  __CPROVER_assert(r != NULL && r->life == RL_CURRENT && (r->notified == 0 || r->restart), "[C04] only the current request is re-queued (retry before completion, or restart asked by its completion)");
  r->life = RL_QUEUED; r->notified = 0;
}
extern struct BusRequest* g_q_second;
static inline struct BusRequest* NextQ_pop(Queue* q) {
  struct BusRequest* r = g_q_head;
  if (r != NULL) { g_q_head = g_q_second; g_q_second = NULL; r->life = RL_CURRENT; r->notified = 0; }
  return r;
}
static inline void FinQ_push(Queue* q, struct BusRequest* r) {
  __CPROVER_assert(r != NULL && r->life == RL_CURRENT && r->notified == 1 && (!r->restart || g_last_notify_result == RESULT_ERR_NO_SIGNAL) && !r->deleteOnFinish, "[C04] exactly the completed, waited-for request is handed to its waiter");
  r->life = RL_FINISHED;
}

/* ---------------- listener ---------------- */
struct ProtocolListener { int dummy; };
extern unsigned g_status_calls;
static inline void Listener_notifyProtocolStatus(struct ProtocolListener* l, ProtocolState st, result_t res) { g_status_calls = g_status_calls + 1; }
static inline void Listener_notifyProtocolSeenAddress(struct ProtocolListener* l, symbol_t a) { }
static inline int role_of(const struct DPH* h);
static inline void Listener_notifyProtocolMessage(struct ProtocolListener* l, MessageDirection dir, const SymbolString* master, const SymbolString* slave) {
  g_reported = g_reported + 1;
  __CPROVER_assert(g_rx.emit, "[C01,C02,C15] a message is reported only when the symbols on the bus form a complete CRC-correct telegram (source master, valid destination, acknowledged)");
  __CPROVER_assert(g_reported == 1, "[C01] a telegram is reported once");
  __CPROVER_assert(dir == (g_step_role == 1 ? md_send : g_step_role == 2 ? md_answer : md_recv), "[C01,C02,C15] direction of the reported message matches the role");
  _Bool mm_answer = g_step_role == 2 && rx_is_master(g_rx.cmd[1]);   /* the registered "answer" of a master-master telegram only carries the expected length */
  __CPROVER_assert(master->m_data.n == g_rx.cn && (mm_answer || slave->m_data.n == ((g_rx.cmd[1] == 0xFE || rx_is_master(g_rx.cmd[1])) ? 0 : g_rx.rn)), "[C01,C02] reported telegram has the lengths seen on the bus");
  __CPROVER_assert(__CPROVER_forall { size_t k; (k < SS_CAP) ==> (k < g_rx.cn ==> master->m_data.d[k] == g_rx.cmd[k]) }, "[C01,C02] reported master part equals the unescaped bytes on the bus");
  __CPROVER_assert(__CPROVER_forall { size_t j; (j < SS_CAP) ==> ((j < slave->m_data.n && !mm_answer) ==> slave->m_data.d[j] == g_rx.res[j]) }, "[C01,C02] reported slave part equals the unescaped bytes on the bus");
}

/* ---------------- device (interface contract of Device, see device.h) ---------------- */
struct Device { _Bool arbitrating; symbol_t arb_master; };
extern struct DPH* g_self; extern _Bool g_active_open, g_echo_pending, g_silent_timeout;
extern unsigned g_recv_calls, g_send_calls; extern symbol_t g_sent_symbol; extern symbol_t g_start_master; extern unsigned g_start_calls;
extern int g_last_recv_result; extern symbol_t g_last_recv_symbol; extern int g_last_arb; extern unsigned g_last_recv_timeout;
static inline result_t Device_recv(struct Device* d, unsigned timeout, symbol_t* value, ArbitrationState* arb) {
  g_recv_calls = g_recv_calls + 1;
  int res = nondet_int(); symbol_t sym = nondet_sym(); int a = nondet_int();
  __CPROVER_assume(res == RESULT_OK || res == RESULT_CONTINUE || res == RESULT_ERR_TIMEOUT || res == RESULT_ERR_DEVICE || res == RESULT_ERR_GENERIC_IO || res == RESULT_ERR_EOF);
  __CPROVER_assume(a == as_none || a == as_start || a == as_running || a == as_lost || a == as_timeout || a == as_error || a == as_won);
  /* interface contract (device.h, PlainDevice::recv, enhanced adapter protocol): an arbitration verdict is delivered with the first
     symbol after a SYN (the address that won), with a SYN (timeout), or with an error result - never in the middle of a telegram */
#ifndef RELAXED_VERDICTS
  __CPROVER_assume(a == as_none || a == as_start || a == as_running || res < 0 || (g_rx.ph == RX_READY && !g_rx.esc) || sym == 0xAA);
  __CPROVER_assume(a != as_timeout || res < 0 || sym == 0xAA);
  __CPROVER_assume(a != as_won || sym == d->arb_master);
#endif    /* the won arbitration is reported with the own address that was written / echoed by the adapter */
  __CPROVER_assume(a != as_won || res >= 0);                 /* "as_won implies RESULT_OK" (device.h) */
  __CPROVER_assume(d->arbitrating || a == as_none);          /* verdicts only while an arbitration was requested */
  if (a == as_lost || a == as_timeout || a == as_error || a == as_won) d->arbitrating = 0;
  g_last_recv_result = res; g_last_recv_symbol = sym; g_last_arb = a; g_last_recv_timeout = timeout;
  g_silent_timeout = res == RESULT_ERR_TIMEOUT && g_self->m_generateSynInterval > 0 && timeout >= g_self->m_generateSynInterval;
  _Bool collision = g_echo_pending && res >= 0 && sym != g_sent_symbol;
  if (g_echo_pending) { if (res < 0 || sym != g_sent_symbol) g_active_open = 0; g_echo_pending = 0; }
  if (res < 0 || (sym == 0xAA)) g_active_open = 0;
  if (a == as_won) g_active_open = 1;
  if (res >= 0) *value = sym;
  *arb = (ArbitrationState)a;
  if (collision && sym != 0xAA) rx_reset(RX_IDLE);   /* a symbol ebusd sent and read back differently is a collision: the telegram is void */
  else rx_step(res, sym);
  return (result_t)res;
}
static inline _Bool Device_isArbitrating(struct Device* d) { return d->arbitrating; }
extern struct DPH* g_self; extern _Bool g_active_open, g_echo_pending, g_silent_timeout;
result_t Device_send(struct Device* d, symbol_t value);
result_t Device_startArbitration(struct Device* d, symbol_t master);

/* clock */
static inline void clockGettime(struct vtimespec* t) { t->tv_sec = nondet_long(); t->tv_nsec = nondet_long(); __CPROVER_assume(t->tv_sec >= 0 && t->tv_sec < (1L << 33) && t->tv_nsec >= 0 && t->tv_nsec < 1000000000L); }
static inline time_t time(time_t* t) { time_t v = nondet_long(); __CPROVER_assume(v >= 0 && v < (1L << 33)); if (t) *t = v; return v; }
static inline double difftime(time_t a, time_t b) { return (double)(a - b); }
#endif
