/* reference recogniser of eBUS telegrams: pure C, shared by the CBMC harness and the native replay driver */
#ifndef RX_SPEC_H
#define RX_SPEC_H
#ifndef SS_CAP
#define SS_CAP 264
#endif
/* ---------------- reference recogniser of eBUS telegrams (written from the protocol description in symbol.h and property C01) ------------- */
enum rx_phase { RX_IDLE, RX_READY, RX_CMD, RX_CMDCRC, RX_CMDACK, RX_RES, RX_RESCRC, RX_RESACK };
struct rx_t {
  int ph;
  symbol_t cmd[SS_CAP]; size_t cn;      /* unescaped master part collected so far */
  symbol_t res[SS_CAP]; size_t rn;      /* unescaped slave part collected so far */
  symbol_t crc;                         /* CRC over the escaped symbols of the running part */
  _Bool esc, rep, ok;                   /* escape pending, part already repeated once, CRC verdict of the running part */
  _Bool emit;                           /* the last symbol completed a valid telegram */
};
extern struct rx_t g_rx;

static inline _Bool rx_is_master(symbol_t a) { return ((0x808Bu >> (a & 0x0F)) & 1u) && ((0x808Bu >> (a >> 4)) & 1u); }
#define rx_crc_step spec_crc_step   /* bitwise polynomial division, model/sym_spec.h */
static inline void rx_reset(int ph) { g_rx.ph = ph; g_rx.cn = 0; g_rx.rn = 0; g_rx.crc = 0; g_rx.esc = 0; g_rx.rep = 0; g_rx.ok = 0; }

/* one received symbol (result < 0: error / timeout instead of a symbol) */
static inline void rx_step(int result, symbol_t sym) {
  g_rx.emit = 0;
  if (result < 0) { rx_reset(RX_IDLE); return; }
  if (sym == 0xAA) { rx_reset(RX_READY); return; }          /* a raw SYN always re-synchronises */
  if (g_rx.ph == RX_READY || g_rx.ph == RX_CMD || g_rx.ph == RX_RES) g_rx.crc = rx_crc_step(g_rx.crc, sym);   /* CRC over escaped symbols */
  symbol_t s = sym;
  if (g_rx.esc) {
    if (sym > 1) { rx_reset(RX_IDLE); return; }              /* invalid escape pair */
    s = sym == 0 ? 0xA9 : 0xAA; g_rx.esc = 0;
  } else if (sym == 0xA9) {
    if (g_rx.ph != RX_IDLE) g_rx.esc = 1;
    return;
  }
  switch (g_rx.ph) {
  case RX_IDLE: return;
  case RX_READY:
    if (!rx_is_master(s)) { rx_reset(RX_IDLE); return; }     /* the source must be a master */
    g_rx.cmd[0] = s; g_rx.cn = 1; g_rx.rep = 0; g_rx.ph = RX_CMD; return;
  case RX_CMD:
    if (g_rx.cn == 0 && !rx_is_master(s)) { rx_reset(RX_IDLE); return; }
    if (g_rx.cn == 1 && (s == 0xAA || s == 0xA9)) { rx_reset(RX_IDLE); return; }   /* invalid destination */
    if (g_rx.cn >= SS_CAP) { rx_reset(RX_IDLE); return; }
    g_rx.cmd[g_rx.cn] = s; g_rx.cn = g_rx.cn + 1;
    if (g_rx.cn >= 5 && g_rx.cn >= 5 + (size_t)g_rx.cmd[4]) g_rx.ph = RX_CMDCRC;
    return;
  case RX_CMDCRC:
    g_rx.ok = s == g_rx.crc;
    if (g_rx.cmd[1] == 0xFE) { if (g_rx.ok && g_rx.cmd[0] != g_rx.cmd[1]) g_rx.emit = 1; g_rx.ph = RX_IDLE; return; }
    if (g_rx.ok || !g_rx.rep) g_rx.ph = RX_CMDACK; else rx_reset(RX_IDLE);
    return;
  case RX_CMDACK:
    if (s == 0x00) {
      if (!g_rx.ok) { rx_reset(RX_IDLE); return; }
      if (rx_is_master(g_rx.cmd[1])) { if (g_rx.cmd[0] != g_rx.cmd[1]) g_rx.emit = 1; g_rx.ph = RX_IDLE; return; }
      g_rx.ph = RX_RES; g_rx.crc = 0; g_rx.rep = 0; g_rx.rn = 0; return;
    }
    if (s == 0xFF && !g_rx.rep) { g_rx.rep = 1; g_rx.crc = 0; g_rx.cn = 0; g_rx.ph = RX_CMD; return; }
    rx_reset(RX_IDLE); return;
  case RX_RES:
    if (g_rx.rn >= SS_CAP) { rx_reset(RX_IDLE); return; }
    g_rx.res[g_rx.rn] = s; g_rx.rn = g_rx.rn + 1;
    if (g_rx.rn >= 1 && g_rx.rn >= 1 + (size_t)g_rx.res[0]) g_rx.ph = RX_RESCRC;
    return;
  case RX_RESCRC:
    g_rx.ok = s == g_rx.crc;
    if (g_rx.ok || !g_rx.rep) g_rx.ph = RX_RESACK; else rx_reset(RX_IDLE);
    return;
  case RX_RESACK:
    if (s == 0x00) { if (g_rx.ok && g_rx.cmd[0] != g_rx.cmd[1]) g_rx.emit = 1; g_rx.ph = RX_IDLE; return; }
    if (s == 0xFF && !g_rx.rep) { g_rx.rep = 1; g_rx.rn = 0; g_rx.crc = 0; g_rx.ph = RX_RES; return; }
    rx_reset(RX_IDLE); return;
  }
}

#endif
