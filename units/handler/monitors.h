/* invariant of the handler state, relation to the ghost monitors, and the stubs that carry C02/C03 obligations */
#ifndef HANDLER_MONITORS_H
#define HANDLER_MONITORS_H

extern _Bool g_answer_mode;
static inline int role_of(const DPH* h);
static inline _Bool is_own_addr(const DPH* h, symbol_t a) { return a == h->m_ownMasterAddress || a == h->m_ownSlaveAddress; }

/* expected symbol on the wire for the unescaped symbol v given the escape state (A9 -> A9 00, AA -> A9 01) */
static inline symbol_t wire_sym(symbol_t v, _Bool esc_pending) {
  if (esc_pending) return v == 0xA9 ? 0x00 : 0x01;
  return (v == 0xA9 || v == 0xAA) ? 0xA9 : v;
}

result_t Device_send(struct Device* d, symbol_t value) {
  const DPH* h = g_self;
  g_send_calls = g_send_calls + 1;
  __CPROVER_assert(!h->m_config.readOnly, "[C03] nothing is transmitted in read-only mode");
  __CPROVER_assert(!g_echo_pending, "[C03] the previous symbol was echo-verified before the next one is sent");
  int role = role_of(h);
  _Bool autosyn = role == 0 && value == 0xAA && g_silent_timeout && h->m_generateSynInterval > 0;
  _Bool active = role == 1 && g_active_open;
  _Bool answering = role == 2 && h->m_currentAnswering && (g_rx.ph == RX_CMDACK || g_rx.ph == RX_RES || g_rx.ph == RX_RESCRC);
  __CPROVER_assert(autosyn || active || answering,
    "[C03] a symbol is sent only as AUTO-SYN after silence, as continuation of a won telegram, or as acknowledge/response while answering");
  if (active) {
    if (g_rx.ph == RX_CMD) {
      __CPROVER_assert(h->m_currentRequest != NULL && g_rx.cn < h->m_currentRequest->master.m_data.n &&
        value == wire_sym(h->m_currentRequest->master.m_data.d[g_rx.cn < SS_CAP ? g_rx.cn : 0], g_rx.esc), "[C02] next master byte of the request, escaped");
    } else if (g_rx.ph == RX_CMDCRC) {
      __CPROVER_assert(value == wire_sym(g_rx.crc, g_rx.esc), "[C02] CRC of the escaped master bytes, escaped itself if needed");
    } else if (g_rx.ph == RX_RESACK) {
      __CPROVER_assert(value == (g_rx.ok ? 0x00 : 0xFF), "[C02] slave response acknowledged with ACK iff its CRC is correct, else NAK");
    } else {
      __CPROVER_assert(value == 0xAA && g_rx.ph == RX_IDLE, "[C02] the exchange is ended with SYN (and only when no answer is awaited)");
    }
  }
  if (answering) {
    if (g_rx.ph == RX_CMDACK) { __CPROVER_assert(value == (g_rx.ok ? 0x00 : 0xFF), "[C15] command acknowledged with ACK iff its CRC is correct, else NAK"); }
    else if (g_rx.ph == RX_RES) { __CPROVER_assert(g_rx.rn < h->m_response.m_data.n && value == wire_sym(h->m_response.m_data.d[g_rx.rn < SS_CAP ? g_rx.rn : 0], g_rx.esc), "[C15] next response byte (NN, data), escaped"); }
    else { __CPROVER_assert(value == wire_sym(g_rx.crc, g_rx.esc), "[C15] CRC of the escaped response, escaped itself if needed"); }
  }
  result_t r = nondet_bool() ? RESULT_OK : (nondet_bool() ? RESULT_ERR_SEND : RESULT_ERR_DEVICE);
  if (r == RESULT_OK) { g_echo_pending = 1; g_sent_symbol = value; }
  else { rx_reset(RX_IDLE); g_active_open = 0; }   /* the sender could not continue: the running telegram is void */
  g_silent_timeout = 0;
  return r;
}
result_t Device_startArbitration(struct Device* d, symbol_t master) {
  const DPH* h = g_self;
  g_start_calls = g_start_calls + 1; g_start_master = master;
  if (master == 0xAA) { d->arbitrating = 0; return RESULT_OK; }     /* cancel */
  __CPROVER_assert(!h->m_config.readOnly, "[C03] no arbitration in read-only mode");
  __CPROVER_assert(h->m_remainLockCount == 0, "[C03] arbitration only after the lock counter expired");
  __CPROVER_assert(g_q_head != NULL && g_q_head->life == RL_QUEUED && master == g_q_head->master.m_data.d[0], "[C03] arbitration only for a pending request, with its own source address");
  __CPROVER_assert(!d->arbitrating && h->m_currentRequest == NULL, "[C03] one arbitration at a time");
  __CPROVER_assert(g_rx.ph == RX_IDLE || g_rx.ph == RX_READY, "[C03] arbitration is requested only while no telegram is running");
  if (nondet_bool()) { d->arbitrating = 1; d->arb_master = master; return RESULT_OK; }
  /* ENVIRONMENT ASSUMPTION (unchecked, see DESIGN.md 6): the start request does not fail in the one-symbol window between an ESC that
     directly follows SYN and the next symbol (setState would forget the pending escape) */
  __CPROVER_assume(!g_rx.esc);
  return nondet_bool() ? RESULT_ERR_SEND : RESULT_ERR_DEVICE;
}

/* getAnswer: contract of unit answer - on true, m_response holds a registered answer (slave part, complete for slave destinations) */
_Bool DPH_getAnswer(DPH* self) {
  if (!g_answer_mode || self->m_answerByKey.is_empty) return 0;
  SymbolString a; size_t n = nondet_size();
  self->m_response.m_data.n = 0;
  if (nondet_bool()) return 0;
  __CPROVER_assume(n <= 256 && (rx_is_master(self->m_command.m_data.d[1]) || (n >= 1 && n == 1 + (size_t)a.m_data.d[0])));
  a.m_data.n = n; a.m_isMaster = 0;
  self->m_response = a;
  return 1;
}
void PH_measureLatency(DPH* self, struct vtimespec* s, struct vtimespec* r) { self->m_symbolLatencyMin = nondet_int(); self->m_symbolLatencyMax = nondet_int(); }

static inline _Bool req_ok(const struct BusRequest* r) {
  return r->master.m_isMaster && r->master.m_data.n >= 5 && r->master.m_data.n == 5 + (size_t)r->master.m_data.d[4] && rx_is_master(r->master.m_data.d[0])
      && r->master.m_data.d[1] != 0xAA && r->master.m_data.d[1] != 0xA9
      && r->master.m_data.d[0] != r->master.m_data.d[1];   /* requests are not self-addressed (assumption on the submitters) */
}
#define ACTIVE_STATE(s) ((s) == bs_sendCmd || (s) == bs_sendCmdCrc || (s) == bs_recvCmdAck || (s) == bs_recvRes || (s) == bs_recvResCrc || (s) == bs_sendResAck)
#define ANSWER_STATE(s) ((s) == bs_sendCmdAck || (s) == bs_sendRes || (s) == bs_sendResCrc || (s) == bs_recvResAck)
#define PASSIVE_STATE(s) ((s) == bs_noSignal || (s) == bs_skip || (s) == bs_ready || (s) == bs_recvCmd || (s) == bs_recvCmdCrc || (s) == bs_recvCmdAck || (s) == bs_recvRes || (s) == bs_recvResCrc || (s) == bs_recvResAck)

/* ---- invariant of the handler state; before_send: the variant that holds before handleSend (= after handleReceive), which
   additionally allows "ready with a current request" (SYN during an own telegram while the lock counter is > 0; cleaned up by handleSend) ---- */
#define INV_PARTS 8
static inline _Bool inv_part(const DPH* h, int part, _Bool before_send) {
  switch (part) {
  case 0:
    return h->m_command.m_isMaster && !h->m_response.m_isMaster && h->m_command.m_data.n <= 260 && h->m_response.m_data.n <= 256
        && (int)h->m_state >= 0 && (int)h->m_state <= bs_sendSyn && h->m_device != NULL && h->m_listener != NULL
        && (h->m_escape == 0 || h->m_escape == 0xA9 || h->m_escape == 0xAA) && (int)h->m_listenerState >= 0 && (int)h->m_listenerState <= ps_empty;
  case 1:
    return h->m_lastReceive >= 0 && h->m_lastReceive < (1L << 33) && h->m_lastSynReceiveTime.tv_sec >= 0 && h->m_lastSynReceiveTime.tv_sec < (1L << 33)
        && h->m_lastSynReceiveTime.tv_nsec >= 0 && h->m_lastSynReceiveTime.tv_nsec < 1000000000L;
  case 2:
    if (h->m_currentRequest == NULL) return 1;
    return h->m_currentRequest->life == RL_CURRENT && h->m_currentRequest->notified == 0 && req_ok(h->m_currentRequest) && !h->m_device->arbitrating
        && (ACTIVE_STATE(h->m_state) || (before_send && h->m_state == bs_ready)) && !h->m_currentAnswering;
  case 3:
    if (h->m_device->arbitrating && !rx_is_master(h->m_device->arb_master)) return 0;
    if (g_q_head == NULL) return 1;
    return g_q_head->life == RL_QUEUED && g_q_head != h->m_currentRequest && req_ok(g_q_head);
  case 4:
    return !(h->m_config.readOnly && (g_q_head != NULL || h->m_currentRequest != NULL || h->m_state == bs_sendSyn));   /* addRequest refuses requests in read-only mode */
  case 5:
    if (h->m_state == bs_ready || h->m_state == bs_skip) return h->m_command.m_data.n == 0 && h->m_response.m_data.n == 0 && h->m_nextSendPos == 0 && !h->m_currentAnswering;
    return 1;
  case 7:
    /* the device only has an arbitration pending (own address to be written after the next SYN) while a request is waiting for it */
    return !h->m_device->arbitrating || g_q_head != NULL;
  default:
    if ((h->m_state == bs_sendCmd || h->m_state == bs_sendCmdCrc || h->m_state == bs_sendResAck) && h->m_currentRequest == NULL) return 0;
    if (ANSWER_STATE(h->m_state) && h->m_state != bs_recvResAck && !h->m_currentAnswering) return 0;
    if (h->m_currentAnswering && !(ANSWER_STATE(h->m_state) || h->m_state == bs_noSignal)) return 0;   /* a lost signal leaves the flag until the next symbol */
    if (h->m_currentAnswering && !g_answer_mode) return 0;
    return 1;
  }
}
static inline _Bool inv(const DPH* h, _Bool before_send) {
  return inv_part(h, 0, before_send) && inv_part(h, 1, before_send) && inv_part(h, 2, before_send) && inv_part(h, 3, before_send)
      && inv_part(h, 4, before_send) && inv_part(h, 5, before_send) && inv_part(h, 6, before_send) && inv_part(h, 7, before_send);
}
#define ASSERT_INV(h, bs) \
  __CPROVER_assert(inv_part(h, 0, bs), "[C01,C02] invariant: buffer kinds and sizes, enum ranges, escape value"); \
  __CPROVER_assert(inv_part(h, 1, bs), "[C20] invariant: time stamps in range"); \
  __CPROVER_assert(inv_part(h, 2, bs), "[C02,C04] invariant: a current request is alive, not yet completed, and only exists in the active states"); \
  __CPROVER_assert(inv_part(h, 3, bs), "[C04] invariant: the head of the queue is a queued, well-formed request"); \
  __CPROVER_assert(inv_part(h, 4, bs), "[C03] invariant: no request and no own transfer in read-only mode"); \
  __CPROVER_assert(inv_part(h, 5, bs), "[C01] invariant: buffers are empty in ready/skip"); \
  __CPROVER_assert(inv_part(h, 6, bs), "[C02,C15] invariant: sending states have a request / an answer"); \
  __CPROVER_assert(inv_part(h, 7, bs), "[C03] invariant: an arbitration is pending in the device only while a request is queued for it")

/* states in which handleSend puts a symbol on the bus (so the following handleReceive sees it in flight) */
#define MUST_SEND(h) (!(h)->m_config.readOnly && ((h)->m_state == bs_sendCmd || (h)->m_state == bs_sendCmdCrc || (h)->m_state == bs_sendResAck || (h)->m_state == bs_sendCmdAck || (h)->m_state == bs_sendRes || (h)->m_state == bs_sendResCrc || (h)->m_state == bs_sendSyn))

/* ---- role of ebusd in the running telegram, as a function of the handler state ---- */
static inline int role_of(const DPH* h) {
  if (h->m_currentRequest != NULL && ACTIVE_STATE(h->m_state)) return 1;
  if (h->m_state == bs_sendSyn) return 1;
  if (h->m_currentAnswering && ANSWER_STATE(h->m_state)) return 2;
  return 0;
}

/* ---- relation between the handler state and the reference recogniser / entitlement monitor ---- */
static inline int phase_of(BusState s) {
  switch (s) {
  case bs_noSignal: case bs_skip: return RX_IDLE;
  case bs_ready: return RX_READY;
  case bs_recvCmd: case bs_sendCmd: return RX_CMD;
  case bs_recvCmdCrc: case bs_sendCmdCrc: return RX_CMDCRC;
  case bs_recvCmdAck: case bs_sendCmdAck: return RX_CMDACK;
  case bs_recvRes: case bs_sendRes: return RX_RES;
  case bs_recvResCrc: case bs_sendResCrc: return RX_RESCRC;
  case bs_recvResAck: case bs_sendResAck: return RX_RESACK;
  default: return RX_IDLE;   /* bs_sendSyn: own telegram finished */
  }
}
/* buffers: passive/answering: m_command mirrors the recogniser; active: the request's master bytes are what is on the bus */
#define REL_BUFS(h) (g_rx.ph == RX_IDLE || g_rx.ph == RX_READY || __CPROVER_forall { size_t k; (k < SS_CAP) ==> ( \
     (k < g_rx.cn ==> ((h)->m_currentRequest != NULL ? (h)->m_currentRequest->master.m_data.d[k] : (h)->m_command.m_data.d[k]) == g_rx.cmd[k]) \
  && (k < g_rx.rn ==> (h)->m_response.m_data.d[k] == g_rx.res[k])) })

/* sending: a symbol sent by ebusd is in flight (its echo is the next symbol to be received); sent: that symbol */
static inline _Bool rel_scalars(const DPH* h, _Bool sending, symbol_t sent) {
  int ph = phase_of(h->m_state);
  int role = role_of(h);
  if (g_echo_pending != sending) return 0;
  if (sending && g_sent_symbol != sent) return 0;
  if (role == 1 && !g_active_open) return 0;
  if (g_rx.ph != ph) return 0;
  if (h->m_state == bs_sendSyn) return h->m_currentRequest == NULL && (!sending || sent == 0xAA);
  if (ph == RX_IDLE) return !sending;
  const SymbolString* m = h->m_currentRequest != NULL ? &h->m_currentRequest->master : &h->m_command;
  if (role == 1) { if (h->m_command.m_data.n != 0) return 0; }
  else if (h->m_command.m_data.n != g_rx.cn) return 0;
  if (role != 2 && ph != RX_RES && ph != RX_RESCRC && ph != RX_RESACK && (h->m_response.m_data.n != 0 || g_rx.rn != 0)) return 0;
  if (role == 2 && ph == RX_CMDACK && g_rx.rn != 0) return 0;
  if (ph == RX_READY && h->m_currentRequest != NULL && (g_rx.esc || h->m_escape != 0)) return 0;
  if (ph == RX_READY) return !sending && h->m_crc == g_rx.crc && g_rx.cn == 0 && g_rx.crc == (g_rx.esc ? spec_crc_step(0, 0xA9) : 0) && (h->m_escape != 0) == g_rx.esc && h->m_escape != 0xAA;
  if (h->m_crc != g_rx.crc) return 0;
  if (h->m_repeat != g_rx.rep) return 0;
  /* escape bookkeeping: while receiving, m_escape is a flag; while sending, it holds the symbol whose escape pair is under way */
  _Bool own_send = (h->m_state == bs_sendCmd || h->m_state == bs_sendCmdCrc || h->m_state == bs_sendRes || h->m_state == bs_sendResCrc);
  if (!own_send) {
    if ((h->m_escape != 0) != g_rx.esc || h->m_escape == 0xAA) return 0;
    if (sending && !(h->m_state == bs_sendResAck || h->m_state == bs_sendCmdAck)) return 0;
    if ((h->m_state == bs_sendResAck || h->m_state == bs_sendCmdAck) && g_rx.esc) return 0;
  }
  if (ph == RX_CMD) {
    if (!((g_rx.cn >= 1 || g_rx.rep) && !(g_rx.cn >= 5 && g_rx.cn >= 5 + (size_t)g_rx.cmd[4]) && (g_rx.cn < 1 || rx_is_master(g_rx.cmd[0])) && (g_rx.cn < 2 || (g_rx.cmd[1] != 0xAA && g_rx.cmd[1] != 0xA9)))) return 0;
    if (role == 1) {
      if (h->m_nextSendPos != g_rx.cn || g_rx.cn >= m->m_data.n) return 0;
      symbol_t v = m->m_data.d[g_rx.cn < SS_CAP ? g_rx.cn : 0];
      if (h->m_escape != 0 && (h->m_escape != v || (v != 0xA9 && v != 0xAA))) return 0;
      if (g_rx.esc && h->m_escape == 0) return 0;
      if (sending && sent != wire_sym(v, g_rx.esc)) return 0;
      if (sending && (v == 0xA9 || v == 0xAA) && h->m_escape == 0) return 0;
      if (!sending && h->m_escape != 0 && !g_rx.esc) return 0;
    }
    return 1;
  }
  /* from here on the master part is complete */
  if (!(g_rx.cn >= 5 && g_rx.cn == 5 + (size_t)g_rx.cmd[4] && rx_is_master(g_rx.cmd[0]) && g_rx.cmd[1] != 0xAA && g_rx.cmd[1] != 0xA9)) return 0;
  if (role == 1 && g_rx.cn != m->m_data.n) return 0;
  if (ph == RX_CMDCRC) {
    if (role == 1) {
      symbol_t v = h->m_crc;
      if (h->m_escape != 0 && (h->m_escape != v || (v != 0xA9 && v != 0xAA))) return 0;
      if (g_rx.esc && h->m_escape == 0) return 0;
      if (sending && sent != wire_sym(v, g_rx.esc)) return 0;
      if (sending && (v == 0xA9 || v == 0xAA) && h->m_escape == 0) return 0;
      if (!sending && h->m_escape != 0 && !g_rx.esc) return 0;
    }
    return 1;
  }
  if (ph == RX_CMDACK) {
    if (!(h->m_crcValid == g_rx.ok && g_rx.cmd[1] != 0xFE && (g_rx.ok || !g_rx.rep))) return 0;
    if (role == 1 && !g_rx.ok) return 0;
    if (role == 2) {   /* answering: acknowledge in flight or about to be sent; the answer is already prepared */
      if (!g_rx.ok) return 0;
      if (sending && sent != (g_rx.ok ? 0x00 : 0xFF)) return 0;
      if (!rx_is_master(g_rx.cmd[1]) && !(h->m_response.m_data.n >= 1 && h->m_response.m_data.n == 1 + (size_t)h->m_response.m_data.d[0])) return 0;
    }
    return 1;
  }
  if (g_rx.cmd[1] == 0xFE || rx_is_master(g_rx.cmd[1])) return 0;      /* only slave destinations have a response */
  if (role == 2) {
    /* own response being sent: m_response is complete, g_rx.res is its echoed prefix; the command's CRC was valid */
    if (!h->m_crcValid) return 0;
    if (!(h->m_response.m_data.n >= 1 && h->m_response.m_data.n == 1 + (size_t)h->m_response.m_data.d[0])) return 0;
    if (ph == RX_RES) {
      if (h->m_nextSendPos != g_rx.rn || g_rx.rn >= h->m_response.m_data.n) return 0;
      symbol_t v = h->m_response.m_data.d[g_rx.rn < SS_CAP ? g_rx.rn : 0];
      if (h->m_escape != 0 && (h->m_escape != v || (v != 0xA9 && v != 0xAA))) return 0;
      if (g_rx.esc && h->m_escape == 0) return 0;
      if (sending && sent != wire_sym(v, g_rx.esc)) return 0;
      if (sending && (v == 0xA9 || v == 0xAA) && h->m_escape == 0) return 0;
      if (!sending && h->m_escape != 0 && !g_rx.esc) return 0;
      return 1;
    }
    if (g_rx.rn != h->m_response.m_data.n) return 0;
    if (ph == RX_RESCRC) {
      symbol_t v = h->m_crc;
      if (h->m_escape != 0 && (h->m_escape != v || (v != 0xA9 && v != 0xAA))) return 0;
      if (g_rx.esc && h->m_escape == 0) return 0;
      if (sending && sent != wire_sym(v, g_rx.esc)) return 0;
      if (sending && (v == 0xA9 || v == 0xAA) && h->m_escape == 0) return 0;
      if (!sending && h->m_escape != 0 && !g_rx.esc) return 0;
      return 1;
    }
    return g_rx.ok && h->m_crcValid;     /* RX_RESACK while answering: own CRC was echoed */
  }
  if (h->m_response.m_data.n != g_rx.rn) return 0;
  if (ph == RX_RES) return !(g_rx.rn >= 1 && g_rx.rn >= 1 + (size_t)g_rx.res[0]);
  if (!(g_rx.rn >= 1 && g_rx.rn == 1 + (size_t)g_rx.res[0])) return 0;
  if (ph == RX_RESCRC) return 1;
  if (!(h->m_crcValid == g_rx.ok && (g_rx.ok || !g_rx.rep))) return 0;   /* RX_RESACK */
  if (sending && sent != (g_rx.ok ? 0x00 : 0xFF)) return 0;
  return 1;
}
#endif
