PD_CPP = 'src/lib/ebus/protocol_direct.cpp'
PD_H = 'src/lib/ebus/protocol_direct.h'
P_CPP = 'src/lib/ebus/protocol.cpp'
P_H = 'src/lib/ebus/protocol.h'
SYM_H = 'src/lib/ebus/symbol.h'
SYM_CPP = 'src/lib/ebus/symbol.cpp'
DEV_H = 'src/lib/ebus/device.h'


def _replay(run, inputs, rp, repo, verif):
    import replay
    exe = replay.build('handler', ['src/lib/ebus/protocol_direct.cpp', 'src/lib/ebus/protocol.cpp', 'src/lib/ebus/symbol.cpp', 'src/lib/ebus/result.cpp',
                                   'src/lib/ebus/device_trans.cpp', 'src/lib/ebus/transport.cpp', 'src/lib/utils/thread.cpp', 'src/lib/utils/clock.cpp',
                                   'src/lib/utils/log.cpp', 'src/lib/utils/tcpsocket.cpp', 'src/lib/utils/rotatefile.cpp'], repo, verif)
    return replay.run(exe, [run['id']])


UNIT = dict(
    replay=_replay,
    trusted=['Device, Queue<BusRequest*>, BusRequest, ProtocolListener and the clock are environment stubs (units/handler/env.h): any result permitted by their interface contract',
             'SymbolString accessors are deterministic stubs that mirror the contracts of model/ss_contracts.h (enforced against the real inline bodies in unit symbol)',
             'run() only alternates handleSend / handleReceive (syntactic check of the extracted run())'],
    defines=[(P_H, ['SLAVE_RECV_TIMEOUT', 'SYN_INTERVAL', 'SYN_TIMEOUT', 'SIGNAL_TIMEOUT', 'SYMBOL_DURATION_MICROS', 'SYMBOL_DURATION', 'SEND_TIMEOUT'])],
    enums=[('src/lib/ebus/result.h', 'result_t'), (SYM_H, 'PredefinedSymbol', 'PredefinedSymbol', 'symbol_t'), (P_H, 'ProtocolState'), (PD_H, 'BusState'),
           (P_H, 'MessageDirection'), (DEV_H, 'ArbitrationState')],
    ctypedefs=[(P_H, 'ebus_protocol_config_t')],
    tables=[(SYM_CPP, 'CRC_LOOKUP_TABLE'), (PD_CPP, 'protocolStateByBusState')],
    structs=[dict(file=SYM_H, classes=['SymbolString'], cname='SymbolString', member_types={'m_data': 'vsym'}, is_self=False),
             dict(parts=[(P_H, 'ProtocolHandler'), (PD_H, 'DirectProtocolHandler')], cname='DPH',
                  skip=('m_logRawBuffer', 'm_logRawFile', 'm_dumpFile'),
                  member_types={'m_device': 'struct Device*', 'm_listener': 'struct ProtocolListener*', 'm_nextRequests': 'Queue', 'm_finishedRequests': 'Queue',
                                'm_answerByKey': 'amap', 'm_command': 'SymbolString', 'm_response': 'SymbolString', 'm_currentRequest': 'struct BusRequest*',
                                'm_config': 'ebus_protocol_config_t', 'm_lastReceive': 'time_t', 'm_lastSynReceiveTime': 'struct vtimespec'})],
    cfg=dict(
        type_map={'SlaveSymbolString': 'SymbolString', 'MasterSymbolString': 'SymbolString', 'BusRequest': 'struct BusRequest', 'struct timespec': 'struct vtimespec'},
        ptr_calls=['BusRequest_getMaster'],
        methods={
            'recv': 'Device_recv', 'send': 'Device_send', 'startArbitration': 'Device_startArbitration', 'isArbitrating': 'Device_isArbitrating',
            'peek': 'NextQ_peek', 'remove': 'NextQ_remove', 'pop': 'NextQ_pop',
            'push': [(r'm_nextRequests$', 'NextQ_push'), (r'm_finishedRequests$', 'FinQ_push')],
            'getMaster': 'BusRequest_getMaster', 'notify': 'BusRequest_notify', 'deleteOnFinish': 'BusRequest_deleteOnFinish',
            'getBusLostRetries': 'BusRequest_getBusLostRetries', 'incrementBusLostRetries': 'BusRequest_incrementBusLostRetries',
            'resetBusLostRetries': 'BusRequest_resetBusLostRetries',
            'notifyProtocolStatus': 'Listener_notifyProtocolStatus', 'notifyProtocolMessage': 'Listener_notifyProtocolMessage',
            'notifyProtocolSeenAddress': 'Listener_notifyProtocolSeenAddress',
            'size': 'SymbolString_size', 'push_back': 'SymbolString_push_back', 'clear': 'SymbolString_clear', 'isComplete': 'SymbolString_isComplete',
        },
        index=[(r'^m_(command|response)$', 'SymbolString_at_nc_inb'), (r'^BusRequest_getMaster\(', 'SymbolString_at'), (r'^(command|response)$', 'SymbolString_at')],
        ref_returns=['SymbolString_at_nc_inb'],
        own_methods={'setState': ('DPH_setState', 'self'), 'messageCompleted': ('DPH_messageCompleted', 'self'), 'addSeenAddress': ('DPH_addSeenAddress', 'self'),
                     'getAnswer': ('DPH_getAnswer', 'self'), 'measureLatency': ('PH_measureLatency', 'self')},
        static_calls={'SymbolString::updateCrc': 'SymbolString_updateCrc', 'ProtocolHandler::addSeenAddress': ('PH_addSeenAddress', 'self')},
        defaults={'DPH_setState': (4, ['false']), 'isValidAddress': (2, ['true'])},
        text_subs=[(r'\bstruct timespec\b', 'struct vtimespec'), (r'\bFALLTHROUGH\b', ''),
                   (r'\bdelete self->m_currentRequest;', 'BusRequest_delete(self->m_currentRequest);')],
    ),
    functions=[
        dict(file=SYM_CPP, name='SymbolString::updateCrc', cname='SymbolString_updateCrc', self=None),
        dict(file=SYM_CPP, name='getMasterPartIndex', cname='getMasterPartIndex', self=None),
        dict(file=SYM_CPP, name='isMaster', cname='isMaster', self=None),
        dict(file=SYM_CPP, name='isValidAddress', cname='isValidAddress', self=None),
        dict(file=SYM_CPP, name='getMasterAddress', cname='getMasterAddress', self=None),
        dict(file=P_CPP, name='ProtocolHandler::addSeenAddress', cname='PH_addSeenAddress', self='DPH'),
        dict(file=PD_CPP, name='DirectProtocolHandler::addSeenAddress', cname='DPH_addSeenAddress', self='DPH'),
        dict(file=PD_CPP, name='DirectProtocolHandler::messageCompleted', cname='DPH_messageCompleted', self='DPH',
             cfg=dict(text_subs=[(r'const SymbolString command\(self->m_currentRequest \? BusRequest_getMaster\(self->m_currentRequest\) : self->m_command\);',
                                  'const SymbolString command = *(self->m_currentRequest ? BusRequest_getMaster(self->m_currentRequest) : &self->m_command);'),
                                 (r'const SymbolString response\(self->m_response\);', 'const SymbolString response = self->m_response;'),
                                 (r'Listener_notifyProtocolMessage\(self->m_listener, direction, command, response\)', 'Listener_notifyProtocolMessage(self->m_listener, direction, &command, &response)')]),
             must_fire={'T:const SymbolString response\\(self->m_response\\);': 1}),
        dict(file=PD_CPP, name='DirectProtocolHandler::setState', cname='DPH_setState', self='DPH',
             cfg=dict(text_subs=[(r'(BusRequest_notify\(self->m_currentRequest,[^;]*?), self->m_response\)', r'\1, &self->m_response)')])),
        dict(file=PD_CPP, name='DirectProtocolHandler::handleSend', cname='DPH_handleSend', self='DPH'),
        dict(file=PD_CPP, name='DirectProtocolHandler::handleReceive', cname='DPH_handleReceive', self='DPH'),
    ],
    runs=[],
)


def R(id, entry, enforce=None, replace=(), loops=False, props=('C01', 'C20'), **kw):
    d = dict(id=id, entry=entry, enforce=enforce, replace=list(replace), loops=loops, props=list(props))
    d.update(kw)
    UNIT['runs'].append(d)

R('recv_passive', 'h_recv_passive', None, unwind=3, props=('C01', 'C04', 'C20'), cost=300, tier='thorough')
for _r, _n in ((0, 'passive'), (1, 'active'), (2, 'answering')):
    R('recv_' + _n + '_any', 'h_recv_any', None, unwind=3, defines=['CASE_ROLE=%d' % _r], props={0: ('C01', 'C03', 'C04', 'C20'), 1: ('C02', 'C03', 'C04', 'C20'), 2: ('C15', 'C03', 'C20')}[_r], cost=400, timeout=1500)
    R('send_' + _n, 'h_send_any', None, unwind=3, defines=['CASE_ROLE=%d' % _r], props={0: ('C03', 'C04', 'C20'), 1: ('C02', 'C03', 'C04', 'C20'), 2: ('C15', 'C03', 'C20')}[_r], cost=200, timeout=1500)
R('recv_c04_anyverdict', 'h_recv_c04', None, unwind=3, defines=['RELAXED_VERDICTS'], props=('C04',), cost=300, timeout=1500)
R('send_c04', 'h_send_c04', None, unwind=3, defines=['RELAXED_VERDICTS'], props=('C04',), cost=50, timeout=1500)
