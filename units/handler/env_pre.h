/* declarations needed before the generated types */
typedef long time_t;
typedef struct amap { _Bool is_empty; } amap;
