/* step harnesses (back end B2): assume INV && REL, one call of the real function, assert INV && REL' */
_Bool g_active_open, g_echo_pending, g_silent_timeout, g_answer_mode;
DPH nondet_DPH(void); struct rx_t nondet_rx(void); struct BusRequest nondet_req(void); struct vtimespec nondet_ts(void);

#define SETUP \
  DPH h = nondet_DPH(); struct Device dev; struct ProtocolListener lis; struct BusRequest r1 = nondet_req(), r2 = nondet_req(), r3 = nondet_req(); \
  dev.arbitrating = nondet_bool(); dev.arb_master = nondet_sym(); h.m_device = &dev; h.m_listener = &lis; g_self = &h; \
  g_rx = nondet_rx(); g_rx.emit = 0; g_reported = 0; g_status_calls = 0; g_recv_calls = 0; g_send_calls = 0; g_start_calls = 0; g_notify_calls = 0; \
  g_active_open = nondet_bool(); g_echo_pending = nondet_bool(); g_sent_symbol = nondet_sym(); g_silent_timeout = 0; g_answer_mode = nondet_bool(); \
  h.m_currentRequest = nondet_bool() ? &r1 : NULL; g_q_head = nondet_bool() ? &r2 : NULL; g_q_second = nondet_bool() ? &r3 : NULL; \
  __CPROVER_assume(r3.life == RL_QUEUED && (h.m_currentRequest != NULL || r1.life != RL_CURRENT) && r2.life != RL_CURRENT && (g_q_head != NULL || r2.life != RL_QUEUED)); \
  __CPROVER_assume(h.m_config.answer == g_answer_mode);\
  __CPROVER_assume(!(h.m_config.readOnly && g_answer_mode));   /* CONFIGURATION EXCLUDED: answering combined with read-only mode (the handler then drops telegrams it would answer) */

#define TS_OK(t) ((t).tv_sec >= 0 && (t).tv_sec < (1L << 33) && (t).tv_nsec >= 0 && (t).tv_nsec < 1000000000L)
#define NO_LOST_REQUEST (((r1.life != RL_CURRENT) || h.m_currentRequest == &r1) && ((r2.life != RL_CURRENT) || h.m_currentRequest == &r2) && ((r3.life != RL_CURRENT) || h.m_currentRequest == &r3))

/* C01: one received symbol while ebusd is a passive listener */
void h_recv_passive(void) {
  SETUP
  struct vtimespec sentTime = nondet_ts(); unsigned timeout = nondet_uint(); symbol_t sentSymbol = nondet_sym();
  __CPROVER_assume(TS_OK(sentTime));
  __CPROVER_assume(inv(&h, 0) && role_of(&h) == 0 && !g_active_open && rel_scalars(&h, 0, 0) && REL_BUFS(&h));
  __CPROVER_assume(!g_answer_mode);
  g_step_role = 0;
  result_t r = DPH_handleReceive(&h, timeout, 0, sentSymbol, &sentTime);
  if (g_last_arb == as_won && role_of(&h) != 1) g_active_open = 0;
  __CPROVER_assert(g_rx.emit == (g_reported == 1), "[C01] a complete valid telegram on the bus is reported (exactly when the recogniser accepts it)");
  ASSERT_INV(&h, 1);
  __CPROVER_assert(rel_scalars(&h, 0, 0), "[C01] handler state follows the reference recogniser (phase, CRC, escape, repeat, CRC verdict, lengths)");
  __CPROVER_assert(REL_BUFS(&h), "[C01] collected master/slave bytes equal the unescaped bytes on the bus");
  __CPROVER_assert(NO_LOST_REQUEST, "[C04] no request is left in limbo by a receive step");
  if (role_of(&h) == 0) { CANARY("passive step stays passive"); }
  if (role_of(&h) == 1) { CANARY("arbitration won"); }
  if (g_rx.emit) { CANARY("telegram reported"); }
  if (g_rx.ph == RX_RES && g_rx.rep) { CANARY("response repeat after NAK"); }
  if (g_last_recv_symbol == 0xAA && g_last_recv_result >= 0) {
    __CPROVER_assert(h.m_state == bs_ready || g_recv_calls > 1, "[C01] after any received SYN the handler is ready for the next telegram");
    CANARY("SYN received");
  }
}

/* C01/C02/C03/C04/C15: one call of handleReceive from any consistent state (passive, active, answering), with or without a symbol in flight */
void h_recv_any(void) {
  SETUP
  struct vtimespec sentTime = nondet_ts(); unsigned timeout = nondet_uint(); symbol_t sentSymbol = nondet_sym(); _Bool sending = nondet_bool();
  __CPROVER_assume(TS_OK(sentTime));
  __CPROVER_assume(inv(&h, 0) && rel_scalars(&h, sending, sentSymbol) && REL_BUFS(&h));
  __CPROVER_assume(sending == MUST_SEND(&h));     /* established by the preceding handleSend (see h_send_any) */
#ifdef CASE_ROLE
  __CPROVER_assume(role_of(&h) == CASE_ROLE);
#endif
  g_step_role = role_of(&h);
  result_t r = DPH_handleReceive(&h, timeout, sending, sentSymbol, &sentTime);
  if (g_last_arb == as_won && role_of(&h) != 1) g_active_open = 0;   /* the won arbitration was abandoned (request withdrawn meanwhile) */
  __CPROVER_assert(g_rx.emit == (g_reported == 1), "[C01,C02,C15] a complete valid telegram on the bus is reported exactly once (received, sent or answered)");
  ASSERT_INV(&h, 1);
  __CPROVER_assert(role_of(&h) != 1 || g_active_open, "[C03] after an echo mismatch, a receive error or a SYN ebusd has left the sending role (it stays silent until the next SYN)");
  __CPROVER_assert(rel_scalars(&h, 0, 0), "[C01,C02,C03,C15] handler state follows the reference recogniser and the entitlement monitor");
  __CPROVER_assert(REL_BUFS(&h), "[C01,C02,C15] collected / sent bytes equal the unescaped bytes on the bus");
  __CPROVER_assert(NO_LOST_REQUEST, "[C04] no request is left in limbo by a receive step");
#if !defined(CASE_ROLE) || CASE_ROLE == 1
  if (g_step_role == 1 && role_of(&h) == 1) { CANARY("active step"); }
  if (g_step_role == 1 && g_rx.emit) { CANARY("own telegram completed"); }
  if (g_step_role == 1 && g_notify_calls == 1 && g_last_notify_result != RESULT_OK) { CANARY("own request failed"); }
#endif
#if !defined(CASE_ROLE) || CASE_ROLE == 2
  if (g_step_role == 2 && g_rx.emit) { CANARY("answered telegram completed"); }
  if (g_step_role == 2 && role_of(&h) == 2) { CANARY("answering step"); }
#endif
#if !defined(CASE_ROLE) || CASE_ROLE == 0
  if (g_step_role == 0 && role_of(&h) == 2) { CANARY("starts answering"); }
  if (g_step_role == 0 && role_of(&h) == 1) { CANARY("arbitration won"); }
  if (g_step_role == 0 && g_rx.emit) { CANARY("telegram received"); }
  if (g_step_role == 0 && g_send_calls == 1) { CANARY("AUTO-SYN sent"); }
#endif
}

/* C02/C03/C04: one call of handleSend */
void h_send_any(void) {
  SETUP
  struct vtimespec sentTime; unsigned recvTimeout = nondet_uint(); symbol_t sentSymbol = nondet_sym(), sentSymbol0 = sentSymbol;
  __CPROVER_assume(inv(&h, 1) && rel_scalars(&h, 0, 0) && REL_BUFS(&h));
#ifdef CASE_ROLE
  __CPROVER_assume(role_of(&h) == CASE_ROLE);
#endif
  g_step_role = role_of(&h);
  result_t r = DPH_handleSend(&h, &recvTimeout, &sentSymbol, &sentTime);
  __CPROVER_assert(g_send_calls <= 1, "[C03] at most one symbol is sent per step");
  __CPROVER_assert((r == RESULT_CONTINUE) == g_echo_pending, "[C02] handleSend reports a symbol in flight exactly when one was sent");
  ASSERT_INV(&h, 0);
  __CPROVER_assert((r == RESULT_CONTINUE) == MUST_SEND(&h), "[C02] after a send step a symbol is in flight exactly in the sending states");
  __CPROVER_assert(rel_scalars(&h, r == RESULT_CONTINUE, sentSymbol), "[C02,C03,C15] state after a send step is consistent with the monitors (symbol in flight, escape bookkeeping)");
  __CPROVER_assert(REL_BUFS(&h), "[C02] send step does not disturb the collected bytes");
  __CPROVER_assert(NO_LOST_REQUEST, "[C04] no request is left in limbo by a send step");
  __CPROVER_assert(g_reported == 0, "[C01] a send step reports no message");
#if !defined(CASE_ROLE) || CASE_ROLE == 1
  if (g_step_role == 1 && r == RESULT_CONTINUE) { CANARY("request symbol sent"); }
#endif
#if !defined(CASE_ROLE) || CASE_ROLE == 0
  if (g_start_calls > 0 && g_start_master != 0xAA) { CANARY("arbitration requested"); }
#endif
#if !defined(CASE_ROLE) || CASE_ROLE == 2
  if (g_step_role == 2 && r == RESULT_CONTINUE) { CANARY("answer symbol sent"); }
#endif
}

/* C04 only: request life cycle under ARBITRARY device behaviour (arbitration verdicts at any time, also late or unsolicited ones):
   only the handler invariant is assumed, not the simulation relation; only the [C04] obligations of this run are counted */
void h_recv_c04(void) {
  SETUP
  struct vtimespec sentTime = nondet_ts(); unsigned timeout = nondet_uint(); symbol_t sentSymbol = nondet_sym(); _Bool sending = nondet_bool();
  __CPROVER_assume(TS_OK(sentTime));
  __CPROVER_assume(inv(&h, 0));
  g_step_role = role_of(&h);
  result_t r = DPH_handleReceive(&h, timeout, sending, sentSymbol, &sentTime);
  __CPROVER_assert(NO_LOST_REQUEST, "[C04] no request is left in limbo by a receive step, whatever the device reports and whenever");
  __CPROVER_assert(inv_part(&h, 2, 1), "[C04] invariant: a current request is alive and not yet completed");
  __CPROVER_assert(inv_part(&h, 3, 1), "[C04] invariant: the head of the queue is a queued request");
  if (g_last_arb == as_won && PASSIVE_STATE(h.m_state)) { CANARY("late or refused won verdict"); }
  if (g_notify_calls == 1) { CANARY("request completed"); }
}
void h_send_c04(void) {
  SETUP
  struct vtimespec sentTime; unsigned recvTimeout = nondet_uint(); symbol_t sentSymbol = nondet_sym();
  __CPROVER_assume(inv(&h, 1));
  g_step_role = role_of(&h);
  result_t r = DPH_handleSend(&h, &recvTimeout, &sentSymbol, &sentTime);
  __CPROVER_assert(NO_LOST_REQUEST, "[C04] no request is left in limbo by a send step");
  __CPROVER_assert(inv_part(&h, 2, 0), "[C04] invariant: a current request is alive and not yet completed");
  __CPROVER_assert(inv_part(&h, 3, 0), "[C04] invariant: the head of the queue is a queued request");
  if (g_notify_calls == 1) { CANARY("request completed"); }
}
