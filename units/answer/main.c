/* unit answer: registration and longest-prefix lookup of answers (C15, C20)
 * verified text: DirectProtocolHandler::createAnswerKey / setAnswer / getAnswer extracted from protocol_direct.cpp */
#include "vbase.h"
#include "vvec.h"
#include "vhandler.h"

/* ---- model of std::map<uint64_t, SlaveSymbolString>: abstract content given by uninterpreted functions ---- */
_Bool __CPROVER_uninterpreted_amap_has(uint64_t key);
size_t __CPROVER_uninterpreted_amap_n(uint64_t key);
symbol_t __CPROVER_uninterpreted_amap_byte(uint64_t key, size_t idx);
typedef struct amap { _Bool is_empty; } amap;

#include "gen_types.h"
typedef struct amap_entry { uint64_t first; SymbolString second; } amap_entry;
typedef const amap_entry* amap_it;
amap_entry amap_slot;          /* storage the iterator points to (one live iterator at a time in getAnswer) */
size_t g_k;                    /* arbitrary but fixed byte position used to compare answers */
uint64_t g_put_key; unsigned g_put_count;   /* setAnswer: key written through operator[] */

#define AMAP_PRESENT(m, key) (!(m)->is_empty && __CPROVER_uninterpreted_amap_has(key))
static inline _Bool amap_empty(const amap* m) { return m->is_empty; }
static inline amap_it amap_end(const amap* m) { return (amap_it)0; }
static inline amap_it amap_find(const amap* m, uint64_t key) {
  if (!AMAP_PRESENT(m, key)) return (amap_it)0;
  amap_entry e;                                   /* nondeterministic entry ... */
  amap_slot = e;
  amap_slot.first = key;
  amap_slot.second.m_isMaster = 0;                /* values are SlaveSymbolString */
  amap_slot.second.m_data.n = __CPROVER_uninterpreted_amap_n(key);
  __CPROVER_assume(amap_slot.second.m_data.n <= SS_CAP);   /* invariant of stored answers, established by setAnswer (see h_setAnswer) */
  __CPROVER_assume(amap_slot.second.m_data.d[0] == __CPROVER_uninterpreted_amap_byte(key, 0));   /* ... whose observed bytes are functions of the key */
  __CPROVER_assume(g_k >= SS_CAP || amap_slot.second.m_data.d[g_k] == __CPROVER_uninterpreted_amap_byte(key, g_k));
  return &amap_slot;
}
static inline SymbolString* amap_index(amap* m, uint64_t key) {
  g_put_key = key; g_put_count = g_put_count + 1; m->is_empty = 0;
  return &amap_slot.second;
}
static inline const symbol_t* SymbolString_data(const SymbolString* s) { return s->m_data.d; }

#include "spec.h"
#include "gen_protos.h"
_Bool isMaster(symbol_t addr); _Bool isValidAddress(symbol_t addr, _Bool allowBroadcast); unsigned int getMasterNumber(symbol_t addr);
unsigned int getMasterPartIndex(symbol_t bits);
#include "sym_contracts.h"
#include "ss_contracts.h"

/* ---------------- contracts ---------------- */
uint64_t DPH_createAnswerKey(DPH* self, symbol_t srcAddress, symbol_t dstAddress, symbol_t pb, symbol_t sb, const symbol_t* id, size_t idLen)
__CPROVER_requires(idLen <= 4)                                   /* the key has room for four id bytes and a 3 bit length */
__CPROVER_requires(idLen == 0 || __CPROVER_r_ok(id, idLen))
__CPROVER_assigns()
__CPROVER_ensures(__CPROVER_return_value == spec_key(idLen, spec_master_number(srcAddress), dstAddress, pb, sb,
    idLen > 0 ? id[0] : 0, idLen > 1 ? id[1] : 0, idLen > 2 ? id[2] : 0, idLen > 3 ? id[3] : 0));

_Bool DPH_setAnswer(DPH* self, symbol_t srcAddress, symbol_t dstAddress, symbol_t pb, symbol_t sb, const symbol_t* id, size_t idLen, const SymbolString* answer)
__CPROVER_requires(__CPROVER_is_fresh(self, sizeof(*self)) && __CPROVER_is_fresh(answer, sizeof(*answer)) && SS_OK(answer) && !answer->m_isMaster)
__CPROVER_requires(id == NULL || __CPROVER_is_fresh(id, 4))
__CPROVER_requires(g_put_count == 0)
__CPROVER_assigns(g_put_key, g_put_count, self->m_answerByKey.is_empty, amap_slot.second)
/* accepted exactly for: answering enabled, id of at most 4 bytes, valid non-broadcast destination, source a master or "any" (SYN),
   master destination: at most 7 bytes (length only), slave destination: a complete slave part */
__CPROVER_ensures(__CPROVER_return_value == (self->m_config.answer && !(id == NULL && idLen > 0) && idLen <= 4
     && dstAddress != 0xAA && dstAddress != 0xA9 && dstAddress != 0xFE && (srcAddress == 0xAA || spec_is_master(srcAddress))
     && (spec_is_master(dstAddress) ? answer->m_data.n <= 7 : (answer->m_data.n >= 1 && answer->m_data.n >= 1 + (size_t)answer->m_data.d[0]))))
__CPROVER_ensures(!__CPROVER_return_value ==> g_put_count == 0)
__CPROVER_ensures(__CPROVER_return_value ==> g_put_count == 1 && g_put_key == spec_key(idLen, srcAddress == 0xAA ? 0 : spec_master_number(srcAddress), dstAddress, pb, sb,
    idLen > 0 ? id[0] : 0, idLen > 1 ? id[1] : 0, idLen > 2 ? id[2] : 0, idLen > 3 ? id[3] : 0))
__CPROVER_ensures(__CPROVER_return_value ==> amap_slot.second.m_data.n == answer->m_data.n && amap_slot.second.m_data.n <= SS_CAP
     && (g_k < answer->m_data.n ==> amap_slot.second.m_data.d[g_k] == answer->m_data.d[g_k]));

_Bool DPH_getAnswer(DPH* self)
__CPROVER_requires(__CPROVER_is_fresh(self, sizeof(*self)))
/* state in which handleReceive calls it: a complete master telegram QQ ZZ PB SB NN D1..Dn with valid CRC */
__CPROVER_requires(self->m_command.m_isMaster && self->m_command.m_data.n >= 5 && self->m_command.m_data.n == 5 + (size_t)self->m_command.m_data.d[4])
__CPROVER_requires(self->m_response.m_data.n <= SS_CAP)
__CPROVER_assigns(self->m_response, amap_slot)
/* answered iff a registered answer matches; the one with the longest matching id prefix is chosen, for every NN */
__CPROVER_ensures(__CPROVER_return_value == (spec_answer_len(&self->m_answerByKey, &self->m_command) >= 0))
__CPROVER_ensures(__CPROVER_return_value ==> self->m_response.m_data.n == __CPROVER_uninterpreted_amap_n(spec_answer_key(&self->m_answerByKey, &self->m_command)))
__CPROVER_ensures(__CPROVER_return_value && g_k < self->m_response.m_data.n ==>
    self->m_response.m_data.d[g_k] == __CPROVER_uninterpreted_amap_byte(spec_answer_key(&self->m_answerByKey, &self->m_command), g_k))
__CPROVER_ensures(__CPROVER_return_value ==> !self->m_response.m_isMaster)
/* the telegram itself is never modified */
__CPROVER_ensures(self->m_command.m_data.n == __CPROVER_old(self->m_command.m_data.n));

#include "gen_funcs.inc"

/* ---------------- harnesses ---------------- */
void h_createAnswerKey(void) {
  DPH* self = NULL; symbol_t id[4]; size_t idLen = nondet_size();
  DPH_createAnswerKey(self, nondet_sym(), nondet_sym(), nondet_sym(), nondet_sym(), nondet_bool() ? id : NULL, idLen);
  CANARY("createAnswerKey returns");
}
void h_setAnswer(void) {
  DPH h; SymbolString a; symbol_t id[4]; g_k = nondet_size(); g_put_count = 0;
  _Bool r = DPH_setAnswer(&h, nondet_sym(), nondet_sym(), nondet_sym(), nondet_sym(), nondet_bool() ? id : NULL, nondet_size(), &a);
  if (r) { CANARY("setAnswer accepts"); } else { CANARY("setAnswer rejects"); }
}
void h_getAnswer(void) {
  DPH h; g_k = nondet_size();
  _Bool r = DPH_getAnswer(&h);
  if (r) { CANARY("getAnswer finds"); if (h.m_command.m_data.d[4] > 6) { CANARY("getAnswer finds for NN > 6"); } } else { CANARY("getAnswer finds nothing"); }
}
/* the key is injective on its domain, so "registered under key" and "registered for (len, src, dst, pb, sb, id)" coincide */
void h_key_lemmas(void) {
  size_t l1 = nondet_size(), l2 = nondet_size(); unsigned s1 = nondet_uint(), s2 = nondet_uint();
  symbol_t a[7], b[7];
  for (int i = 0; i < 7; i++) { a[i] = nondet_sym(); b[i] = nondet_sym(); }
  __CPROVER_assume(l1 <= 4 && l2 <= 4 && s1 <= 25 && s2 <= 25);
  /* unused id bytes are zero in a key */
  for (int i = 0; i < 4; i++) { if ((size_t)i >= l1) a[3 + i] = 0; if ((size_t)i >= l2) b[3 + i] = 0; }
  uint64_t k1 = spec_key(l1, s1, a[0], a[1], a[2], a[3], a[4], a[5], a[6]);
  uint64_t k2 = spec_key(l2, s2, b[0], b[1], b[2], b[3], b[4], b[5], b[6]);
  _Bool same = l1 == l2 && s1 == s2;
  for (int i = 0; i < 7; i++) same = same && a[i] == b[i];
  __CPROVER_assert((k1 == k2) == same, "spec_key is injective on (idLen<=4, src number<=25, dst, pb, sb, id bytes)");
  __CPROVER_assert((k1 >> 48 & 0xff) == a[0], "destination is recoverable from the key");
  CANARY("lemmas reached");
}
