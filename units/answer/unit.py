PD_CPP = 'src/lib/ebus/protocol_direct.cpp'
PD_H = 'src/lib/ebus/protocol_direct.h'
P_H = 'src/lib/ebus/protocol.h'
SYM_H = 'src/lib/ebus/symbol.h'

SS_FUNCS = ['SymbolString_at_nc', 'SymbolString_at', 'SymbolString_clear', 'SymbolString_getDataSize', 'SymbolString_isComplete', 'SymbolString_size']


def _replay(run, inputs, rp, repo, verif):
    import replay
    exe = replay.build('answer', ['src/lib/ebus/protocol_direct.cpp', 'src/lib/ebus/protocol.cpp', 'src/lib/ebus/symbol.cpp', 'src/lib/ebus/result.cpp',
                                  'src/lib/ebus/device_trans.cpp', 'src/lib/ebus/transport.cpp', 'src/lib/utils/thread.cpp', 'src/lib/utils/clock.cpp',
                                  'src/lib/utils/log.cpp', 'src/lib/utils/tcpsocket.cpp', 'src/lib/utils/rotatefile.cpp'], repo, verif)
    return replay.run(exe, [run['id']])


UNIT = dict(
    replay=_replay,
    trusted=['std::map<uint64_t,SlaveSymbolString> modelled by uninterpreted functions of the key (presence, size, bytes); find() of the same key always yields the same entry',
             'SymbolString accessors are used through their contracts (model/ss_contracts.h), which are enforced against the real inline bodies in unit symbol'],
    enums=[('src/lib/ebus/result.h', 'result_t'), (SYM_H, 'PredefinedSymbol', 'PredefinedSymbol', 'symbol_t'), (P_H, 'ProtocolState'), (PD_H, 'BusState')],
    ctypedefs=[(P_H, 'ebus_protocol_config_t')],
    structs=[dict(file=SYM_H, classes=['SymbolString'], cname='SymbolString', member_types={'m_data': 'vsym'}, is_self=False),
             dict(parts=[(P_H, 'ProtocolHandler'), (PD_H, 'DirectProtocolHandler')], cname='DPH',
                  skip=('m_logRawBuffer', 'm_logRawFile', 'm_dumpFile'),
                  member_types={'m_device': 'struct Device*', 'm_listener': 'struct ProtocolListener*', 'm_nextRequests': 'Queue', 'm_finishedRequests': 'Queue',
                                'm_answerByKey': 'amap', 'm_command': 'SymbolString', 'm_response': 'SymbolString', 'm_currentRequest': 'struct BusRequest*',
                                'm_config': 'ebus_protocol_config_t', 'm_lastReceive': 'long', 'm_lastSynReceiveTime': 'struct vtimespec'})],
    cfg=dict(
        type_map={'SlaveSymbolString': 'SymbolString', 'MasterSymbolString': 'SymbolString'},
        methods={
            'empty': 'amap_empty', 'find': 'amap_find', 'end': 'amap_end',
            'clear': 'SymbolString_clear', 'data': 'SymbolString_data', 'getDataSize': 'SymbolString_getDataSize',
            'size': 'SymbolString_size', 'isComplete': 'SymbolString_isComplete',
        },
        index=[(r'^m_command$', 'SymbolString_at_nc_inb'), (r'^m_answerByKey$', 'amap_index')],
        ref_returns=['SymbolString_at_nc_inb', 'amap_index'],
        own_methods={'createAnswerKey': ('DPH_createAnswerKey', 'self')},
        auto_types={'it': 'amap_it'},
        defaults={'isValidAddress': (2, ['true'])},
    ),
    functions=[
        dict(file=PD_CPP, name='DirectProtocolHandler::createAnswerKey', cname='DPH_createAnswerKey', self='DPH'),
        dict(file=PD_CPP, name='DirectProtocolHandler::setAnswer', cname='DPH_setAnswer', self='DPH'),
        dict(file=PD_CPP, name='DirectProtocolHandler::getAnswer', cname='DPH_getAnswer', self='DPH'),
    ],
    runs=[],
)


def R(id, entry, enforce=None, replace=(), loops=False, props=('C15', 'C03', 'C20'), **kw):   # C03 clause (c) rests on the answer lookup: ebusd answers only what is registered for the addressed own address
    d = dict(id=id, entry=entry, enforce=enforce, replace=list(replace), loops=loops, props=list(props))
    d.update(kw)
    UNIT['runs'].append(d)

R('createAnswerKey', 'h_createAnswerKey', 'DPH_createAnswerKey', ['getMasterNumber'], unwind=6, cost=5)
R('setAnswer', 'h_setAnswer', 'DPH_setAnswer', ['DPH_createAnswerKey', 'isMaster', 'isValidAddress', 'SymbolString_size', 'SymbolString_isComplete'], cost=5)
R('getAnswer', 'h_getAnswer', 'DPH_getAnswer', ['DPH_createAnswerKey', 'isMaster'] + ['SymbolString_at_nc_inb', 'SymbolString_clear', 'SymbolString_getDataSize'], unwind=7, cost=20)
R('key_lemmas', 'h_key_lemmas', None, cost=2)
