/* specification of answer registration / lookup, written from property C15:
 * an answer is registered for (id length <= 4, source master number or 0 = any, destination, PB, SB, id bytes);
 * a received telegram is answered with the registered answer that has the longest matching id prefix,
 * a source-specific registration taking precedence over an "any source" one of the same length;
 * for a master destination the registered data tail must complete the telegram's NN. */
#ifndef ANSWER_SPEC_H
#define ANSWER_SPEC_H
#include "sym_spec.h"
static inline uint64_t spec_key(size_t idLen, unsigned srcNum, symbol_t dst, symbol_t pb, symbol_t sb,
                                symbol_t i0, symbol_t i1, symbol_t i2, symbol_t i3) {
  return ((uint64_t)idLen << 61) | ((uint64_t)srcNum << 56) | ((uint64_t)dst << 48) | ((uint64_t)pb << 40) | ((uint64_t)sb << 32)
       | ((uint64_t)i0 << 24) | ((uint64_t)i1 << 16) | ((uint64_t)i2 << 8) | (uint64_t)i3;
}
/* data size a stored slave string announces (NN byte, limited by the bytes present) */
static inline size_t spec_entry_datasize(uint64_t key) {
  size_t n = __CPROVER_uninterpreted_amap_n(key);
  if (n == 0) return 0;
  size_t nn = __CPROVER_uninterpreted_amap_byte(key, 0);
  return n - 1 < nn ? n - 1 : nn;
}
/* candidate of id prefix length L for the telegram cmd (complete master part); 0 = none */
static inline _Bool spec_cand(const amap* m, const SymbolString* cmd, size_t L, uint64_t* key) {
  size_t nn = cmd->m_data.d[4];
  if (L > nn || L > 4) return 0;
  symbol_t i0 = L > 0 ? cmd->m_data.d[5] : 0, i1 = L > 1 ? cmd->m_data.d[6] : 0, i2 = L > 2 ? cmd->m_data.d[7] : 0, i3 = L > 3 ? cmd->m_data.d[8] : 0;
  unsigned src = spec_master_number(cmd->m_data.d[0]);
  uint64_t k1 = spec_key(L, src, cmd->m_data.d[1], cmd->m_data.d[2], cmd->m_data.d[3], i0, i1, i2, i3);
  uint64_t k2 = spec_key(L, 0, cmd->m_data.d[1], cmd->m_data.d[2], cmd->m_data.d[3], i0, i1, i2, i3);
  uint64_t k;
  if (AMAP_PRESENT(m, k1)) k = k1; else if (AMAP_PRESENT(m, k2)) k = k2; else return 0;
  if (spec_is_master(cmd->m_data.d[1]) && L + spec_entry_datasize(k) != nn) return 0;
  *key = k;
  return 1;
}
static inline int spec_answer_len(const amap* m, const SymbolString* cmd) {
  uint64_t k;
  if (spec_cand(m, cmd, 4, &k)) return 4;
  if (spec_cand(m, cmd, 3, &k)) return 3;
  if (spec_cand(m, cmd, 2, &k)) return 2;
  if (spec_cand(m, cmd, 1, &k)) return 1;
  if (spec_cand(m, cmd, 0, &k)) return 0;
  return -1;
}
static inline uint64_t spec_answer_key(const amap* m, const SymbolString* cmd) {
  uint64_t k = 0;
  if (spec_cand(m, cmd, 4, &k)) return k;
  if (spec_cand(m, cmd, 3, &k)) return k;
  if (spec_cand(m, cmd, 2, &k)) return k;
  if (spec_cand(m, cmd, 1, &k)) return k;
  if (spec_cand(m, cmd, 0, &k)) return k;
  return 0;
}
#endif
