DT_CPP = 'src/lib/ebus/datatype.cpp'
DT_H = 'src/lib/ebus/datatype.h'
SYM_H = 'src/lib/ebus/symbol.h'

_inl = dict(file=DT_H, inline_class='DataType', self='DTT')
_ss = dict(methods={'size': 'vsym_size'}, index=[(r'^m_data$', 'vsym_get')], members={'m_data', 'm_isMaster'})


def _replay(run, inputs, rp, repo, verif):
    import replay
    exe = replay.build('datetime', ['src/lib/ebus/datatype.cpp', 'src/lib/ebus/symbol.cpp', 'src/lib/ebus/result.cpp', 'src/lib/ebus/contrib/contrib.cpp',
                                    'src/lib/ebus/contrib/tem.cpp'], repo, verif)
    return replay.run(exe, [run['id']])


def _types(repo):
    """R15g: the built-in date/time type table: every `add(new DateTimeDataType(id, bits, flags, replacement, hasDate, hasTime, resolution))` of
    DataTypeList::DataTypeList becomes a `static const DTT dtt_<id>` initialiser (argument text copied verbatim)"""
    import re, os
    txt = open(os.path.join(repo, DT_CPP)).read()
    out = []
    for m in re.finditer(r'add\(new DateTimeDataType\("([A-Z0-9:]+)",\s*([^,]+),\s*([^,]+),\s*([^,]+),\s*(true|false),\s*(true|false),\s*([^)]+)\)\);', txt):
        ident = m.group(1).replace(':', '_')
        res = m.group(7).strip()
        out.append('static const DTT dtt_%s = { .m_bitCount = %s, .m_flags = (%s)|DAT, .m_replacement = %s, .m_hasDate = %s, .m_hasTime = %s, .m_resolution = (%s) == 0 ? 1 : (%s) };'
                   % (ident, m.group(2).strip(), m.group(3).strip(), m.group(4).strip(), '1' if m.group(5) == 'true' else '0', '1' if m.group(6) == 'true' else '0', res, res))
    return '\n'.join(out), len(out)


UNIT = dict(
    generated=[_types],
    replay=_replay,
    trusted=['floor() is modelled by truncation and correction (exact for |x| < 2^52)', 'std::ostream formatting is a token model: every operand of a << chain is recorded as a token (string, character, number with the width/fill in force); the digits libstdc++ prints for a number are not modelled',
             'SymbolString::getDataSize / dataAt are the real inline bodies of symbol.h'],
    defines=[(DT_H, ['NULL_VALUE', 'ADJ', 'BCD', 'REV', 'SIG', 'IGN', 'FIX', 'REQ', 'HCD', 'EXP', 'DAY', 'NUM', 'DAT', 'SPE', 'DUP', 'REZ', 'REMAIN_LEN', 'LENGTH_SEPARATOR'])],
    enums=[('src/lib/ebus/result.h', 'result_t'), (SYM_H, 'PredefinedSymbol', 'PredefinedSymbol', 'symbol_t'), (DT_H, 'OutputFormat', 'OutputFormatE')],
    structs=[dict(file=SYM_H, classes=['SymbolString'], cname='SymbolString', member_types={'m_data': 'vsym'}, is_self=False),
             dict(parts=[(DT_H, 'DataType'), (DT_H, 'DateTimeDataType')], cname='DTT', skip=('m_id',)),
             dict(parts=[(DT_H, 'DataType'), (DT_H, 'StringDataType')], cname='STT', skip=('m_id',))],
    cfg=dict(
        type_map={'ostream': 'struct tokout', 'OutputFormat': 'unsigned'},
        methods={'getDataSize': 'SymbolString_getDataSize', 'dataAt': 'SymbolString_dataAt'},
        own_methods={'hasFlag': ('DataType_hasFlag', 'self')},
        text_subs=[(r'\bfloor\(', 'vfloor(')],
    ),
    functions=[
        dict(file=SYM_H, inline_class='SymbolString', self='SymbolString', name='getDataSize', cname='SymbolString_getDataSize', cfg=_ss),
        dict(file=SYM_H, inline_class='SymbolString', self='SymbolString', name='dataAt', sig='(size_t index) const', cname='SymbolString_dataAt', cfg=_ss),
        dict(_inl, name='hasFlag', cname='DataType_hasFlag', static=True),
        dict(_inl, name='hasFlag', cname='STT_hasFlag', static=True, self='STT'),
        dict(file=DT_CPP, name='StringDataType::readSymbols', cname='STT_readSymbols', self='STT', cfg=dict(own_methods={'hasFlag': ('STT_hasFlag', 'self')}),
             pre_subs=[(r'<< \(m_isHex \? hex : dec\);', '; if (m_isHex) { *output << hex; } else { *output << dec; }', 1)],
             stream_out=dict(vars=['output'], min=6)),
        dict(_inl, name='isIgnored', cname='DataType_isIgnored', static=True),
        dict(file=SYM_H, inline_class='SymbolString', self='SymbolString', name='dataAt', sig='(size_t index)', nth=1, cname='SymbolString_dataAt_nc',
             cfg=dict(methods={'size': 'vsym_size', 'resize': 'vsym_resize'}, index=[(r'^m_data$', 'vsym_ref')], ref_returns=['vsym_ref', 'SymbolString_dataAt_nc'], members={'m_data', 'm_isMaster'})),
        dict(file=DT_CPP, name='DateTimeDataType::writeSymbols', cname='DTT_writeSymbols', self='DTT',
             cfg=dict(methods={'dataAt': 'SymbolString_dataAt_nc', 'getDataSize': 'SymbolString_getDataSize'}, ref_returns=['SymbolString_dataAt_nc'],
                      own_methods={'hasFlag': ('DataType_hasFlag', 'self'), 'isIgnored': ('DataType_isIgnored', 'self')}, type_map={'istringstream': 'struct iss'}),
             pre_subs=[(r'string token;', 'int token = -1;', 1),
                       (r"input->eof\(\) \|\| !getline\(\*input, token, m_hasTime && i == 2 \? ' ' : '\.'\)", 'env_eof(input) || !env_getline(input, &token)', 1),
                       (r'input->eof\(\) \|\| !getline\(\*input, token, LENGTH_SEPARATOR\)', 'env_eof(input) || !env_getline(input, &token)', 1),
                       (r'token == NULL_VALUE', 'env_tok_null(input, token)', 2),
                       (r'parseInt\(token\.c_str\(\), (\w+), ([^,]+), ([^,]+), &result\)', lambda m: 'env_tok_int_b(input, token, %s, %s, %s, &result)' % (m.group(1), m.group(2), m.group(3)), 2)]),
        dict(_inl, name='isIgnored', cname='STT_isIgnored', static=True, self='STT'),
        dict(file=DT_CPP, name='StringDataType::writeSymbols', cname='STT_writeSymbols', self='STT',
             cfg=dict(methods={'dataAt': 'SymbolString_dataAt_nc', 'eof': 'cs_eof', 'peek': 'cs_peek', 'get': 'cs_get', 'clear': 'tok2_clear', 'push_back': 'tok2_push', 'c_str': 'tok2_cstr'},
                      ref_returns=['SymbolString_dataAt_nc'], own_methods={'hasFlag': ('STT_hasFlag', 'self'), 'isIgnored': ('STT_isIgnored', 'self')},
                      type_map={'istringstream': 'struct cstream', 'string': 'struct tok2'}, text_subs=[(r'\bparseInt\(tok2_cstr\(&token\), 16, 0, 0xff, &result\)', 'env_hex2(&token, &result)')])),
        dict(file=DT_CPP, name='DateTimeDataType::readSymbols', cname='DTT_readSymbols', self='DTT',
             stream_out=dict(vars=['output'], str_macros=('NULL_VALUE',), min=15)),
    ],
    runs=[],
)


def R(id, entry, enforce=None, replace=(), loops=False, props=('C05', 'C12', 'C20'), **kw):
    d = dict(id=id, entry=entry, enforce=enforce, replace=list(replace), loops=loops, props=list(props))
    d.update(kw)
    UNIT['runs'].append(d)

_D = ['SS_CAP=8']
R('day', 'h_day', None, unwind=6, defines=_D, cost=120, timeout=1500)
R('dtm', 'h_dtm', None, unwind=6, defines=_D, cost=200, timeout=1800)
R('hexstr', 'h_hexstr', None, unwind=8, defines=_D, cost=20)
R('charstr', 'h_charstr', None, unwind=8, defines=_D, cost=20)
for _n in ('min', 'ttm', 'tth', 'ttq', 'bti', 'hti', 'vti', 'btm', 'htm', 'vtm', 'bda', 'bda3', 'hda', 'hda3'):
    R(_n, 'h_' + _n, None, unwind=6, defines=_D, cost=10)
for _n in ('bti', 'hti', 'vti', 'btm', 'htm', 'vtm', 'min', 'ttm', 'tth', 'ttq', 'bda', 'bda3', 'hda', 'hda3', 'bdz'):
    R('rt_' + _n, 'h_rt_' + _n, None, unwind=14, defines=_D, cost=20, props=('C06', 'C20'))
R('rt_day', 'h_rt_day', None, unwind=14, defines=_D, cost=200, timeout=1800, props=('C06', 'C20'))
R('rt_dtm', 'h_rt_dtm', None, unwind=14, defines=_D, cost=600, timeout=2400, props=('C06', 'C20'), tier='thorough')
for _n in ('bti', 'hti', 'vti', 'btm', 'htm', 'vtm', 'min', 'ttm', 'tth', 'ttq', 'bda', 'bda3', 'hda', 'hda3'):
    R('wr_' + _n, 'h_wr_' + _n, None, unwind=14, defines=_D, cost=20, props=('C07', 'C20'))
R('wr_day', 'h_wr_day', None, unwind=14, defines=_D, cost=150, timeout=1800, props=('C07', 'C20'))
R('wr_dtm', 'h_wr_dtm', None, unwind=14, defines=_D, cost=300, timeout=2400, props=('C07', 'C20'))
R('rt_hex', 'h_rt_hex', None, unwind=14, defines=_D, cost=30, props=('C06', 'C20'))
R('rt_str', 'h_rt_str', None, unwind=14, defines=_D, cost=30, props=('C06', 'C20'))
R('wr_hex', 'h_wr_hex', None, unwind=14, defines=_D, cost=60, props=('C06', 'C07', 'C20'), bounded='hex input texts of up to 8 characters')
