/* unit datetime: decoding of the date / time types (C05): DateTimeDataType::readSymbols on the built-in type table.
 * Output is a token stream (R11): strings, characters and numbers with the field width in force. Back end B2. */
#include "vbase.h"
#include "vvec.h"
#include "gen_types.h"
#define TCAP 12
enum tokkind { TK_STR = 1, TK_CHAR, TK_NUM };
struct tokout { int kind[TCAP]; long val[TCAP]; int width[TCAP]; size_t n; int cur_width; char fill; _Bool is_dec; _Bool hexnum[TCAP]; };
_Bool g_hex_expected;      /* set by the harness of the HEX type only */
static inline void tok_add(struct tokout* o, int kind, long val, int width) {
  __CPROVER_assert(o->n < TCAP, "model capacity: more output tokens than TCAP");
  if (o->n < TCAP) { o->kind[o->n] = kind; o->val[o->n] = val; o->width[o->n] = width; o->n = o->n + 1; }
}
static inline void out_str(struct tokout* o, const char* s) { tok_add(o, TK_STR, (long)(unsigned char)s[0] | ((long)(unsigned char)(s[0] ? s[1] : 0) << 8), 0); o->cur_width = 0; }
static inline void out_char(struct tokout* o, char c) { tok_add(o, TK_CHAR, (unsigned char)c, 0); o->cur_width = 0; }
static inline void out_dec(struct tokout* o) { o->is_dec = 1; }
static inline void out_hex(struct tokout* o) { o->is_dec = 0; }
static inline int isprint(int c) { return c >= 0x20 && c < 0x7f; }      /* C locale */
static inline void out_fill(struct tokout* o, char c) { o->fill = c; }
static inline void out_setw(struct tokout* o, int w) { o->cur_width = w; }
static inline void out_num(struct tokout* o, long v) {
  if (o->n < TCAP) o->hexnum[o->n] = !o->is_dec;
  __CPROVER_assert(o->is_dec || g_hex_expected, "[C12] numbers are printed in decimal whatever was printed on the stream before");
  __CPROVER_assert(o->cur_width == 0 || o->fill == '0', "[C12] padded numbers are zero-filled whatever was printed on the stream before");
  tok_add(o, TK_NUM, v, o->cur_width); o->cur_width = 0;
}
#define OUT_NUM(o, x) out_num(o, (long)(x))
/* floor() for |x| < 2^52 (CBMC 6.11's built-in model of floor aborts with an internal error) */
static inline double vfloor(double x) { __CPROVER_assert(x > -4.0e15 && x < 4.0e15, "model: floor() only for small magnitudes"); long t = (long)x; double r = (double)t; return r > x ? r - 1.0 : r; }
/* ---- character stream of the string encoder: std::istringstream get / peek / eof (eofbit is set by a read at the end, not before) ---- */
#define CSCAP 12
struct cstream { unsigned char s[CSCAP]; size_t n, pos; _Bool eofbit; };
static inline _Bool cs_eof(const struct cstream* c) { return c->eofbit; }
static inline int cs_peek(struct cstream* c) { if (c->pos < c->n && c->pos < CSCAP) return c->s[c->pos]; c->eofbit = 1; return -1; }
static inline int cs_get(struct cstream* c) { if (c->pos < c->n && c->pos < CSCAP) { int v = c->s[c->pos]; c->pos = c->pos + 1; return v; } c->eofbit = 1; return -1; }
struct tok2 { unsigned char d[3]; size_t n; };
static inline void tok2_clear(struct tok2* t) { t->n = 0; t->d[0] = 0; }
static inline void tok2_push(struct tok2* t, symbol_t c) { __CPROVER_assert(t->n < 2, "two character token"); if (t->n < 2) { t->d[t->n] = c; t->n = t->n + 1; t->d[t->n] = 0; } }
static inline int hexval(unsigned c) { return (c >= '0' && c <= '9') ? (int)c - '0' : (c >= 'a' && c <= 'f') ? (int)c - 'a' + 10 : (c >= 'A' && c <= 'F') ? (int)c - 'A' + 10 : -1; }
/* parseInt(token, 16, 0, 0xff): two hex digits give their value, anything else is rejected (contract of parseInt in unit symbol; a sign character is outside this model) */
static inline unsigned env_hex2(const struct tok2* t, result_t* res) {
  if (t->n == 2 && hexval(t->d[0]) >= 0 && hexval(t->d[1]) >= 0) { *res = RESULT_OK; return (unsigned)(16 * hexval(t->d[0]) + hexval(t->d[1])); }
  *res = RESULT_ERR_INVALID_NUM; return 0;
}
/* ---- input text of the encoder as a token sequence: numbers and null values, separated as the type expects ---- */
#define TOKC 6
struct iss { int kind[TOKC]; long val[TOKC]; size_t n, pos; };       /* kind: 0 = "-", 1 = decimal number, 2 = anything else */
static inline _Bool env_eof(const struct iss* in) { return in->pos >= in->n; }
static inline _Bool env_getline(struct iss* in, int* tok) { if (in->pos >= in->n || in->pos >= TOKC) return 0; *tok = (int)in->pos; in->pos = in->pos + 1; return 1; }
static inline _Bool env_tok_null(const struct iss* in, int tok) { __CPROVER_assert(tok >= 0 && tok < TOKC, "[C20] token read before use"); return in->kind[tok >= 0 && tok < TOKC ? tok : 0] == 0; }
static inline unsigned env_tok_int(const struct iss* in, int tok, unsigned lo, unsigned hi, result_t* res) {
  __CPROVER_assert(tok >= 0 && tok < TOKC, "[C20] token read before use");
  int k = tok >= 0 && tok < TOKC ? tok : 0;
  if (in->kind[k] != 1 || in->val[k] < 0) { *res = RESULT_ERR_INVALID_NUM; return 0; }
  if ((unsigned long)in->val[k] < lo || (unsigned long)in->val[k] > hi) { *res = RESULT_ERR_OUT_OF_RANGE; return 0; }
  *res = RESULT_OK; return (unsigned)in->val[k];
}
/* parseInt(token, base, lo, hi): the components of a date / time text are decimal numbers (the decoder prints them zero padded, which any other
   base - or base detection - would read differently or reject) */
static inline unsigned env_tok_int_b(const struct iss* in, int tok, int base, unsigned lo, unsigned hi, result_t* res) {
  __CPROVER_assert(base == 10, "[C06,C07] date and time components are parsed as decimal numbers");
  return env_tok_int(in, tok, lo, hi, res);
}
#include "gen_protos.h"
#include "gen_funcs.inc"

/* ---------------- calendar specification (Gregorian rules, independent of the code's float formula) ---------------- */
static inline _Bool spec_leap(long y) { return (y % 4 == 0) && (y % 100 != 0 || y % 400 == 0); }
static inline long spec_dim(long y, long m) { return m == 2 ? (spec_leap(y) ? 29 : 28) : (m == 4 || m == 6 || m == 9 || m == 11) ? 30 : 31; }
/* days from 01.01.1900 to d.m.y for 1900 <= y <= 2199 */
static inline long spec_days_since_1900(long y, long m, long d) {
  static const int cum[13] = { 0, 0, 31, 59, 90, 120, 151, 181, 212, 243, 273, 304, 334 };
  long yy = y - 1900;                                         /* years completed */
  long leaps = yy == 0 ? 0 : (yy - 1) / 4 - (y > 2100 ? 1 : 0);      /* leap days in 1900..y-1: 1904, 1908, ... (1900 and 2100 are none) */
  return yy * 365 + leaps + cum[(m >= 1 && m <= 12) ? m : 0] + ((m > 2 && spec_leap(y)) ? 1 : 0) + (d - 1);
}
static inline _Bool spec_valid_date(long y, long m, long d) { return m >= 1 && m <= 12 && d >= 1 && d <= spec_dim(y, m); }
#define STR1(c) ((long)(unsigned char)(c))
#define IS_STR(o, k, c) ((o)->kind[k] == TK_STR && (o)->val[k] == STR1(c))
#define IS_NUM(o, k, w) ((o)->kind[k] == TK_NUM && (o)->width[k] == (w))
static inline void out_init(struct tokout* o) { o->n = 0; o->cur_width = nondet_int(); o->fill = nondet_char(); o->is_dec = nondet_bool(); }   /* arbitrary stream state left by earlier output */
SymbolString nondet_SS(void);
static inline SymbolString slave_with(size_t len) { SymbolString s = nondet_SS(); __CPROVER_assume(!s.m_isMaster && s.m_data.n == 1 + len && s.m_data.d[0] == len); return s; }

/* DAY: number of days since 01.01.1900 in two bytes (low byte first); ff ff is the null value */
void h_day(void) {
  SymbolString in = slave_with(2); struct tokout o; out_init(&o);
  unsigned n = in.m_data.d[1] | ((unsigned)in.m_data.d[2] << 8);
  result_t r = DTT_readSymbols(&dtt_DAY, 0, 2, &in, 0, &o);
  __CPROVER_assert(r == RESULT_OK, "[C05] every day count decodes");
  if (n == 0xffff) {
    __CPROVER_assert(o.n == 5 && IS_STR(&o, 0, '-') && IS_STR(&o, 1, '.') && IS_STR(&o, 2, '-') && IS_STR(&o, 3, '.') && IS_STR(&o, 4, '-'), "[C05] the replacement pattern decodes to the null date -.-.-");
    CANARY("null date");
  } else {
    __CPROVER_assert(o.n == 5 && IS_NUM(&o, 0, 2) && IS_STR(&o, 1, '.') && IS_NUM(&o, 2, 2) && IS_STR(&o, 3, '.') && IS_NUM(&o, 4, 0), "[C05] a day count is shown as dd.mm.yyyy (nothing else)");
    if (o.n == 5) {
      long d = o.val[0], m = o.val[2], y = o.val[4];
      __CPROVER_assert(y >= 1900 && y <= 2079 && spec_valid_date(y, m, d), "[C05] the shown date exists in the calendar");
      __CPROVER_assert(spec_days_since_1900(y, m, d) == (long)n, "[C05] the shown date is the calendar date that many days after 01.01.1900");
    }
    if ((n & 0xff) == 0xff) { CANARY("day count with low byte ff"); }
    if (n < 59) { CANARY("january / february 1900"); }
  }
}
/* DTM: minutes since 01.01.2009 in four bytes; range up to 31.12.2099 23:59 */
#define DTM_MAX 47861279ul
void h_dtm(void) {
  SymbolString in = slave_with(4); struct tokout o; out_init(&o);
  unsigned long mins = in.m_data.d[1] | ((unsigned long)in.m_data.d[2] << 8) | ((unsigned long)in.m_data.d[3] << 16) | ((unsigned long)in.m_data.d[4] << 24);
  result_t r = DTT_readSymbols(&dtt_DTM, 0, 4, &in, 0, &o);
  if (mins > DTM_MAX) { __CPROVER_assert(r < 0, "[C05] a minute count beyond 31.12.2099 is outside the value range of the type and is rejected"); CANARY("beyond 2099"); }
  else {
    __CPROVER_assert(r == RESULT_OK, "[C05] every minute count of the range decodes");
    __CPROVER_assert(o.n == 9 && IS_NUM(&o, 0, 2) && IS_STR(&o, 1, '.') && IS_NUM(&o, 2, 2) && IS_STR(&o, 3, '.') && IS_NUM(&o, 4, 0) && IS_STR(&o, 5, ' ') && IS_NUM(&o, 6, 2) && IS_STR(&o, 7, ':') && IS_NUM(&o, 8, 2),
                     "[C05] a minute count is shown as dd.mm.yyyy hh:mm");
    if (o.n == 9) {
      long d = o.val[0], m = o.val[2], y = o.val[4], hh = o.val[6], mm = o.val[8];
      __CPROVER_assert(y >= 2009 && y <= 2099 && spec_valid_date(y, m, d) && hh >= 0 && hh < 24 && mm >= 0 && mm < 60, "[C05] the shown date and time exist");
      __CPROVER_assert((spec_days_since_1900(y, m, d) - 39812) * 1440 + hh * 60 + mm == (long)mins, "[C05] the shown date and time is that many minutes after 01.01.2009 00:00");
    }
    CANARY("in range");
  }
}
/* MIN: minutes since midnight in two bytes, 00:00 - 24:00 */
void h_min(void) {
  SymbolString in = slave_with(2); struct tokout o; out_init(&o);
  unsigned n = in.m_data.d[1] | ((unsigned)in.m_data.d[2] << 8);
  result_t r = DTT_readSymbols(&dtt_MIN, 0, 2, &in, 0, &o);
  if (n == 0xffff) { __CPROVER_assert(r == RESULT_OK && o.n == 3 && IS_STR(&o, 0, '-') && IS_STR(&o, 1, ':') && IS_STR(&o, 2, '-'), "[C05] the replacement pattern ff ff decodes to the null time -:-"); CANARY("null"); }
  else if (n > 24 * 60) { __CPROVER_assert(r == RESULT_ERR_OUT_OF_RANGE, "[C05] more than 24:00 is rejected"); CANARY("out of range"); }
  else {
    __CPROVER_assert(r == RESULT_OK && o.n == 3 && IS_NUM(&o, 0, 2) && IS_STR(&o, 1, ':') && IS_NUM(&o, 2, 2), "[C05] minutes since midnight are shown as hh:mm");
    if (o.n == 3) { __CPROVER_assert(o.val[0] * 60 + o.val[2] == (long)n && o.val[2] >= 0 && o.val[2] < 60, "[C05] hh:mm is the given minute of the day"); }
    CANARY("in range");
  }
}
/* truncated times TTM / TTH / TTQ: one byte, hour * (60/res) + minute / res */
enum outcome { OC_NULL = 1, OC_BAD_DIGIT, OC_BAD_RANGE, OC_BAD_YEAR, OC_GOOD };
static inline int trunc_time(const DTT* t, unsigned steps_per_hour, unsigned res, unsigned mask, _Bool has_repl) {
  SymbolString in = slave_with(1); struct tokout o; out_init(&o);
  unsigned b = in.m_data.d[1];
  result_t r = DTT_readSymbols(t, 0, 1, &in, 0, &o);
  unsigned v = b & mask;
  if (has_repl && b == t->m_replacement) {
    __CPROVER_assert(r == RESULT_OK && o.n == 3 && IS_STR(&o, 0, '-') && IS_STR(&o, 1, ':') && IS_STR(&o, 2, '-'), "[C05] the replacement pattern decodes to the null time -:-");
    return OC_NULL;
  } else if (v > 24 * steps_per_hour) { __CPROVER_assert(r == RESULT_ERR_OUT_OF_RANGE, "[C05] more than 24:00 is rejected"); return OC_BAD_RANGE; }
  else {
    __CPROVER_assert(r == RESULT_OK && o.n == 3 && IS_NUM(&o, 0, 2) && IS_STR(&o, 1, ':') && IS_NUM(&o, 2, 2), "[C05] a truncated time is shown as hh:mm");
    if (o.n == 3) { __CPROVER_assert(o.val[0] * steps_per_hour * res + o.val[2] == (long)(v * res) && o.val[2] >= 0 && o.val[2] < 60, "[C05] hh:mm is step * resolution minutes after midnight"); }
    return OC_GOOD;
  }
}
#define SEEN(oc, what, text) if ((oc) == (what)) { CANARY(text); }
void h_ttm(void) { int oc = trunc_time(&dtt_TTM, 6, 10, 0xff, 1); SEEN(oc, OC_NULL, "null time") SEEN(oc, OC_BAD_RANGE, "out of range") SEEN(oc, OC_GOOD, "in range") }
void h_tth(void) { int oc = trunc_time(&dtt_TTH, 2, 30, 0x3f, 1); SEEN(oc, OC_NULL, "null time") SEEN(oc, OC_BAD_RANGE, "out of range") SEEN(oc, OC_GOOD, "in range") }
void h_ttq(void) { int oc = trunc_time(&dtt_TTQ, 4, 15, 0x7f, 1); SEEN(oc, OC_NULL, "null time") SEEN(oc, OC_BAD_RANGE, "out of range") SEEN(oc, OC_GOOD, "in range") }

/* times hh:mm[:ss] in BCD / binary, either byte order */
static inline _Bool bcd_ok(unsigned b) { return (b & 0xf0) <= 0x90 && (b & 0x0f) <= 0x09; }
static inline unsigned bcd_val(unsigned b) { return (b >> 4) * 10 + (b & 0x0f); }
static inline int clock_time(const DTT* t, size_t len, _Bool bcd, _Bool rev) {
  SymbolString in = slave_with(len); struct tokout o; out_init(&o);
  result_t r = DTT_readSymbols(t, 0, len, &in, 0, &o);
  /* components in display order hh, mm[, ss]: REV types store the hour last; a component equal to the replacement byte is shown as "-" */
  unsigned c[3]; _Bool isnull[3]; _Bool any_null = 0, bad_digit = 0, bad_range = 0, stop = 0; unsigned hour = 0;
  for (size_t k = 0; k < 3; k++) {
    isnull[k] = 0; c[k] = 0;
    if (k < len && !stop) {
      unsigned b = in.m_data.d[1 + (rev ? len - 1 - k : k)];
      if (b == t->m_replacement) { isnull[k] = 1; any_null = 1; }
      else if (bcd && !bcd_ok(b)) { bad_digit = 1; stop = 1; }
      else {
        c[k] = bcd ? bcd_val(b) : b;
        if (k == 0) { if (c[0] > 24) { bad_range = 1; stop = 1; } hour = c[0]; }
        else if (c[k] > 59 || (hour == 24 && c[k] > 0)) { bad_range = 1; stop = 1; }
      }
    }
  }
  if (bad_digit) { __CPROVER_assert(r == RESULT_ERR_OUT_OF_RANGE, "[C05] a byte outside the BCD digit set is rejected"); return OC_BAD_DIGIT; }
  if (bad_range) { __CPROVER_assert(r == RESULT_ERR_OUT_OF_RANGE, "[C05] a time outside 00:00:00 - 24:00:00 is rejected"); return OC_BAD_RANGE; }
  __CPROVER_assert(r == RESULT_OK && o.n == 2 * len - 1, "[C05] a time is shown as hh:mm[:ss] (a null component as -), nothing else");
  for (size_t k = 0; k < 3; k++) { if (k < len && o.n == 2 * len - 1) {
    if (isnull[k]) __CPROVER_assert(IS_STR(&o, 2 * k, '-'), "[C05] a component equal to the replacement byte is shown as the null value");
    else __CPROVER_assert(IS_NUM(&o, 2 * k, 2) && o.val[2 * k] == (long)c[k], "[C05] hour, minute, second are the stored components in display order");
    if (k > 0) __CPROVER_assert(IS_STR(&o, 2 * k - 1, ':'), "[C05] components are separated by a colon");
  } }
  return any_null ? OC_NULL : OC_GOOD;
}
void h_bti(void) { int oc = clock_time(&dtt_BTI, 3, 1, 1); SEEN(oc, OC_BAD_DIGIT, "bad bcd") SEEN(oc, OC_BAD_RANGE, "bad time") SEEN(oc, OC_GOOD, "good time") SEEN(oc, OC_NULL, "null component") }
void h_hti(void) { int oc = clock_time(&dtt_HTI, 3, 0, 0); SEEN(oc, OC_BAD_RANGE, "bad time") SEEN(oc, OC_GOOD, "good time") SEEN(oc, OC_NULL, "null component") }
void h_vti(void) { int oc = clock_time(&dtt_VTI, 3, 0, 1); SEEN(oc, OC_BAD_RANGE, "bad time") SEEN(oc, OC_GOOD, "good time") SEEN(oc, OC_NULL, "null component") }
void h_btm(void) { int oc = clock_time(&dtt_BTM, 2, 1, 1); SEEN(oc, OC_BAD_DIGIT, "bad bcd") SEEN(oc, OC_BAD_RANGE, "bad time") SEEN(oc, OC_GOOD, "good time") SEEN(oc, OC_NULL, "null component") }
void h_htm(void) { int oc = clock_time(&dtt_HTM, 2, 0, 0); SEEN(oc, OC_BAD_RANGE, "bad time") SEEN(oc, OC_GOOD, "good time") SEEN(oc, OC_NULL, "null component") }
void h_vtm(void) { int oc = clock_time(&dtt_VTM, 2, 0, 1); SEEN(oc, OC_BAD_RANGE, "bad time") SEEN(oc, OC_GOOD, "good time") SEEN(oc, OC_NULL, "null component") }

/* dates dd.mm.yy (BDA:3 / HDA:3) and dd.mm.WW.yy (BDA / HDA / BDZ, weekday skipped) */
static inline int plain_date(const DTT* t, size_t len, _Bool bcd) {
  SymbolString in = slave_with(len); struct tokout o; out_init(&o);
  result_t r = DTT_readSymbols(t, 0, len, &in, 0, &o);
  /* day, month, [weekday: not shown], year; a component equal to the replacement byte or 0 is null (the year only together with the month) */
  unsigned raw[3] = { in.m_data.d[1], in.m_data.d[2], in.m_data.d[len] }; unsigned c[3]; _Bool isnull[3]; _Bool any_null = 0, bad_digit = 0, bad_range = 0, bad_year = 0, stop = 0;
  for (size_t k = 0; k < 3; k++) {
    isnull[k] = 0; c[k] = raw[k];
    if (!stop) {
      if (raw[k] != 0xff) { if (bcd && !bcd_ok(raw[k])) { bad_digit = 1; stop = 1; } else if (bcd) c[k] = bcd_val(raw[k]); }
      if (!stop) {
        _Bool nullish = c[k] == 0xff || c[k] == 0;
        if (k < 2) { if (nullish) { isnull[k] = 1; any_null = 1; } else if (c[k] < 1 || (k == 0 && c[k] > 31) || (k == 1 && c[k] > 12)) { bad_range = 1; stop = 1; } }
        else { if (nullish && isnull[1]) { isnull[2] = 1; any_null = 1; } else if (c[2] > 99) { bad_year = 1; stop = 1; } }
      }
    }
  }
  if (bad_digit) { __CPROVER_assert(r == RESULT_ERR_OUT_OF_RANGE, "[C05] a byte outside the BCD digit set is rejected"); return OC_BAD_DIGIT; }
  if (bad_range) { __CPROVER_assert(r == RESULT_ERR_OUT_OF_RANGE, "[C05] a day or month outside the calendar is rejected"); return OC_BAD_RANGE; }
  if (bad_year) { __CPROVER_assert(r < 0, "[C05] a year beyond 2099 is outside the value range of the type and is rejected"); return OC_BAD_YEAR; }
  __CPROVER_assert(r == RESULT_OK && o.n == 5 && IS_STR(&o, 1, '.') && IS_STR(&o, 3, '.'), "[C05] a date is shown as dd.mm.yyyy (a null component as -), nothing else");
  if (o.n == 5) {
    for (size_t k = 0; k < 3; k++) {
      if (isnull[k]) __CPROVER_assert(IS_STR(&o, 2 * k, '-'), "[C05] a null component is shown as the null value");
      else __CPROVER_assert(IS_NUM(&o, 2 * k, k < 2 ? 2 : 0) && o.val[2 * k] == (long)(k < 2 ? c[k] : 2000 + c[2]), "[C05] day, month and year are the stored components");
    }
  }
  return any_null ? OC_NULL : OC_GOOD;
}
void h_bda(void) { int oc = plain_date(&dtt_BDA, 4, 1); SEEN(oc, OC_BAD_DIGIT, "bad bcd") SEEN(oc, OC_BAD_RANGE, "bad date") SEEN(oc, OC_GOOD, "good date") SEEN(oc, OC_NULL, "null component") }
void h_bda3(void) { int oc = plain_date(&dtt_BDA_3, 3, 1); SEEN(oc, OC_BAD_DIGIT, "bad bcd") SEEN(oc, OC_BAD_RANGE, "bad date") SEEN(oc, OC_GOOD, "good date") SEEN(oc, OC_NULL, "null component") }
void h_hda(void) { int oc = plain_date(&dtt_HDA, 4, 0); SEEN(oc, OC_BAD_YEAR, "bad year") SEEN(oc, OC_BAD_RANGE, "bad date") SEEN(oc, OC_GOOD, "good date") }
void h_hda3(void) { int oc = plain_date(&dtt_HDA_3, 3, 0); SEEN(oc, OC_BAD_YEAR, "bad year") SEEN(oc, OC_BAD_RANGE, "bad date") SEEN(oc, OC_GOOD, "good date") }

/* character and hex strings (STR / NTS / HEX): length bytes in storage order (REV: reverse) */
STT nondet_STT(void);
#define SLEN 4
void h_hexstr(void) {
  STT t = nondet_STT(); SymbolString in = slave_with(SLEN); struct tokout o; out_init(&o); g_hex_expected = 1;
  __CPROVER_assume(t.m_isHex);
  result_t r = STT_readSymbols(&t, 0, SLEN, &in, 0, &o);
  __CPROVER_assert(r == RESULT_OK && o.n == 2 * SLEN - 1, "[C05] a hex string is shown as one two-digit group per byte separated by blanks");
  size_t k = nondet_size(); __CPROVER_assume(k < SLEN);
  if (o.n == 2 * SLEN - 1) {
    __CPROVER_assert(o.kind[2 * k] == TK_NUM && o.hexnum[2 * k] && o.width[2 * k] == 2 && o.val[2 * k] == (long)in.m_data.d[1 + ((t.m_flags & REV) ? SLEN - 1 - k : k)], "[C05] group k is byte k (reverse order for REV types) as two hex digits, zero filled");
    if (k > 0) __CPROVER_assert(o.kind[2 * k - 1] == TK_CHAR && o.val[2 * k - 1] == ' ', "[C05] groups are separated by one blank");
  }
  CANARY("hex string");
}
void h_charstr(void) {
  STT t = nondet_STT(); SymbolString in = slave_with(SLEN); struct tokout o; out_init(&o); g_hex_expected = 0;
  __CPROVER_assume(!t.m_isHex && !(t.m_flags & REV));
  result_t r = STT_readSymbols(&t, 0, SLEN, &in, 0, &o);
  /* expected characters: up to the first NUL; control characters as the replacement, other non-printable ones as ? */
  size_t n = 0; _Bool term = 0; long exp[SLEN];
  for (size_t i = 0; i < SLEN; i++) { unsigned b = in.m_data.d[1 + i]; if (b == 0) term = 1; else if (!term) { exp[n] = b < 0x20 ? (long)(unsigned char)t.m_replacement : (b >= 0x7f ? (long)'?' : (long)b); n++; } }
  __CPROVER_assert(r == RESULT_OK && o.n == n, "[C05] a character string is shown up to its NUL terminator, one character per byte");
  size_t k = nondet_size(); __CPROVER_assume(k < SLEN);
  if (k < n && o.n == n) { __CPROVER_assert(o.kind[k] == TK_CHAR && o.val[k] == exp[k], "[C05] character k is byte k (control characters as the replacement character, other non-printable bytes as ?)"); }
  if (n == 2 && term) { CANARY("terminated string"); }
}

/* ---------------- C06: what is decoded can be encoded back (date / time types) ---------------- */
/* the decoded tokens become the encoder's input: numbers as numbers, "-" as null, separators as the type expects */
static inline _Bool tokens_to_input(const struct tokout* o, struct iss* in, _Bool* any_null, _Bool* all_null) {
  in->n = 0; in->pos = 0; *any_null = 0; *all_null = 1; _Bool ok = 1;
  for (size_t k = 0; k < TCAP; k++) {
    if (k < o->n) {
      if (o->kind[k] == TK_NUM) { if (in->n < TOKC) { in->kind[in->n] = 1; in->val[in->n] = o->val[k]; in->n = in->n + 1; } else ok = 0; *all_null = 0; }
      else if (o->kind[k] == TK_STR && o->val[k] == (long)'-') { if (in->n < TOKC) { in->kind[in->n] = 0; in->val[in->n] = 0; in->n = in->n + 1; } else ok = 0; *any_null = 1; }
    }
  }
  return ok;
}
/* weekday byte of the 4 byte date types: Mon=1..Sun=7 (BDA/HDA), Mon=0..Sun=6 (BDZ); 01.01.1900 was a Monday */
static inline unsigned spec_weekday(long y, long m, long d, _Bool zero_based) { long wd = spec_days_since_1900(y, m, d) % 7; return (unsigned)(zero_based ? wd : wd + 1); }
static inline int roundtrip(const DTT* t, size_t len, _Bool bcd, _Bool has_weekday) {
  SymbolString in = slave_with(len); struct tokout o; out_init(&o);
  result_t r = DTT_readSymbols(t, 0, len, &in, 0, &o);
  if (r != RESULT_OK) return 0;
  struct iss text; _Bool any_null, all_null;
  if (!tokens_to_input(&o, &text, &any_null, &all_null)) return 0;
  if (any_null && !all_null) return OC_NULL;             /* partially null values: not specified here */
  SymbolString out; out.m_isMaster = 0; out.m_data.n = 1; out.m_data.d[0] = 0; size_t used = nondet_size();
  result_t w = DTT_writeSymbols(t, 0, len, &text, &out, &used);
  __CPROVER_assert(w == RESULT_OK, "[C06] the text a byte pattern decodes to is accepted by the encoder");
  if (w != RESULT_OK) return OC_BAD_RANGE;
  __CPROVER_assert(used == len && out.m_data.n == 1 + len, "[C06] the encoder produces the length of the type");
  size_t k = nondet_size(); __CPROVER_assume(k < len);
  if (all_null) {
    __CPROVER_assert(has_weekday && k == 2 ? 1 : out.m_data.d[1 + k] == (symbol_t)t->m_replacement, "[C06] the null value is encoded as the replacement pattern");
    return OC_NULL;
  }
  if (has_weekday && k == 2) {
    long d = o.val[0], m = o.val[2], y = o.val[4];
    __CPROVER_assert(out.m_data.d[3] == spec_weekday(y, m, d, (t->m_flags & SPE) != 0), "[C06] the weekday byte is regenerated from the date (calendar weekday)");
  } else {
    symbol_t owned = t->m_bitCount < 8 ? (symbol_t)((1u << t->m_bitCount) - 1u) : (symbol_t)0xff;
    __CPROVER_assert(((out.m_data.d[1 + k] ^ in.m_data.d[1 + k]) & owned) == 0, "[C06] encoding the decoded text reproduces the bytes (the bits the type owns)");
  }
  return OC_GOOD;
}
#define RT(name, type, len, bcd, wd) void h_rt_##name(void) { int oc = roundtrip(&type, len, bcd, wd); SEEN(oc, OC_GOOD, "round trip") }
RT(bti, dtt_BTI, 3, 1, 0) RT(hti, dtt_HTI, 3, 0, 0) RT(vti, dtt_VTI, 3, 0, 0) RT(btm, dtt_BTM, 2, 1, 0) RT(htm, dtt_HTM, 2, 0, 0) RT(vtm, dtt_VTM, 2, 0, 0)
RT(min, dtt_MIN, 2, 0, 0) RT(ttm, dtt_TTM, 1, 0, 0) RT(tth, dtt_TTH, 1, 0, 0) RT(ttq, dtt_TTQ, 1, 0, 0)
RT(bda, dtt_BDA, 4, 1, 1) RT(bda3, dtt_BDA_3, 3, 1, 0) RT(hda, dtt_HDA, 4, 0, 1) RT(hda3, dtt_HDA_3, 3, 0, 0) RT(bdz, dtt_BDZ, 4, 1, 1)
RT(day, dtt_DAY, 2, 0, 0) RT(dtm, dtt_DTM, 4, 0, 0)

/* ---------------- C07: encoding a date / time text: accepted iff its components are in range, and the bytes decode to the same components ---------------- */
enum wkind { WK_TIME, WK_MIN, WK_TRUNC, WK_DATE, WK_DAY, WK_DTM };
static inline int write_then_read(const DTT* t, size_t len, int kind, unsigned res) {
  struct iss text; long c[5]; size_t nc = kind == WK_TIME ? len : kind == WK_MIN || kind == WK_TRUNC ? 2 : kind == WK_DTM ? 5 : 3;
  for (size_t k = 0; k < 5; k++) { c[k] = nondet_long(); __CPROVER_assume(c[k] >= 0 && c[k] <= 3000); }
  text.n = nc; text.pos = 0; for (size_t k = 0; k < TOKC; k++) { text.kind[k] = 1; text.val[k] = k < 5 ? c[k] : 0; }
  SymbolString out; out.m_isMaster = 0; out.m_data.n = 1; out.m_data.d[0] = 0; size_t used = nondet_size();
  result_t w = DTT_writeSymbols(t, 0, len, &text, &out, &used);
  _Bool accept;
  if (kind == WK_TIME) accept = c[0] <= 24 && c[1] <= 59 && (len < 3 || c[2] <= 59) && (c[0] < 24 || (c[1] == 0 && (len < 3 || c[2] == 0)));
  else if (kind == WK_MIN || kind == WK_TRUNC) accept = c[0] <= 24 && c[1] <= 59 && (c[0] < 24 || c[1] == 0);
  else {
    long y = c[2] < 100 ? c[2] + 2000 : c[2];
    if (kind == WK_DATE) accept = c[0] >= 1 && c[0] <= 31 && c[1] >= 1 && c[1] <= 12 && y >= 2000 && y <= 2099 && c[2] <= 2099;
    else if (kind == WK_DAY) accept = spec_valid_date(y, c[1], c[0]) && y >= 1900 && c[2] <= 2099 && spec_days_since_1900(y, c[1], c[0]) <= 65535;
    else accept = spec_valid_date(y, c[1], c[0]) && y >= 2009 && y <= 2099 && c[2] <= 2099 && c[3] <= 24 && c[4] <= 59 && (c[3] < 24 || c[4] == 0);
  }
  if (kind == WK_DAY || kind == WK_DTM) {       /* only calendar dates are specified as input for the day / minute counts */
    long y = c[2] < 100 ? c[2] + 2000 : c[2];
    if (!(c[0] >= 1 && c[1] >= 1 && c[1] <= 12 && c[0] <= spec_dim(y, c[1]))) return 0;
  }
  __CPROVER_assert((w == RESULT_OK) == accept, "[C07] a date / time text is encoded iff every component is in the range of the type (else it is rejected with an error)");
  if (w != RESULT_OK) { __CPROVER_assert(w < 0, "[C07] rejection is an error code"); return OC_BAD_RANGE; }
  __CPROVER_assert(used == len && out.m_data.n == 1 + len, "[C07] the encoder produces the length of the type");
  if (kind == WK_DTM && c[3] == 24) return OC_NULL;      /* 24:00 is stored as 00:00 of the following day: not compared here */
  struct tokout o; out_init(&o); out.m_data.d[0] = (symbol_t)len;       /* (the caller adjusts NN) */
  result_t r = DTT_readSymbols(t, 0, len, &out, 0, &o);
  /* null collisions: a component equal to the replacement byte decodes as null (00:00 of TTH/TTQ, ...) - the type has no other encoding for it */
  __CPROVER_assert(r == RESULT_OK, "[C07] what was encoded can be decoded");
  if (r != RESULT_OK) return OC_BAD_RANGE;
  _Bool null_seen = 0; for (size_t k = 0; k < TCAP; k++) { if (k < o.n && o.kind[k] == TK_STR && o.val[k] == (long)'-') null_seen = 1; }
  if (null_seen) return OC_NULL;
  if (kind == WK_TIME) { for (size_t k = 0; k < 3; k++) { if (k < len) __CPROVER_assert(o.n == 2 * len - 1 && o.val[2 * k] == c[k], "[C07] the encoded time decodes to the requested hour, minute, second"); } }
  else if (kind == WK_MIN) { __CPROVER_assert(o.n == 3 && o.val[0] == c[0] && o.val[2] == c[1], "[C07] the encoded minutes since midnight decode to the requested time"); }
  else if (kind == WK_TRUNC) {
    long req = c[0] * 60 + c[1], got = o.val[0] * 60 + o.val[2], d = req > got ? req - got : got - req;
    __CPROVER_assert(o.n == 3 && d <= (long)res, "[C07] the encoded truncated time decodes to within one resolution step of the requested time");
  } else {
    long y = c[2] < 100 ? c[2] + 2000 : c[2];
    __CPROVER_assert(o.n >= 5 && o.val[0] == c[0] && o.val[2] == c[1] && o.val[4] == y, "[C07] the encoded date decodes to the requested day, month and year");
    if (kind == WK_DTM) __CPROVER_assert(o.n == 9 && o.val[6] == c[3] && o.val[8] == c[4], "[C07] ... and to the requested hour and minute");
  }
  return OC_GOOD;
}
#define WR(name, type, len, kind, res) void h_wr_##name(void) { int oc = write_then_read(&type, len, kind, res); SEEN(oc, OC_GOOD, "encoded and decoded") SEEN(oc, OC_BAD_RANGE, "rejected") }
WR(bti, dtt_BTI, 3, WK_TIME, 0) WR(hti, dtt_HTI, 3, WK_TIME, 0) WR(vti, dtt_VTI, 3, WK_TIME, 0) WR(btm, dtt_BTM, 2, WK_TIME, 0) WR(htm, dtt_HTM, 2, WK_TIME, 0) WR(vtm, dtt_VTM, 2, WK_TIME, 0)
WR(min, dtt_MIN, 2, WK_MIN, 0) WR(ttm, dtt_TTM, 1, WK_TRUNC, 10) WR(tth, dtt_TTH, 1, WK_TRUNC, 30) WR(ttq, dtt_TTQ, 1, WK_TRUNC, 15)
WR(bda, dtt_BDA, 4, WK_DATE, 0) WR(bda3, dtt_BDA_3, 3, WK_DATE, 0) WR(hda, dtt_HDA, 4, WK_DATE, 0) WR(hda3, dtt_HDA_3, 3, WK_DATE, 0)
WR(day, dtt_DAY, 2, WK_DAY, 0) WR(dtm, dtt_DTM, 4, WK_DTM, 0)

/* ---------------- strings: decode -> text -> encode (C06), and encoding of arbitrary hex texts (C07) ---------------- */
static inline unsigned char hexdigit(unsigned v) { return (unsigned char)(v < 10 ? '0' + v : 'a' + (v - 10)); }
void h_rt_hex(void) {
  STT t = nondet_STT(); SymbolString in = slave_with(SLEN); struct tokout o; out_init(&o); g_hex_expected = 1;
  __CPROVER_assume(t.m_isHex && !(t.m_flags & IGN));
  result_t r = STT_readSymbols(&t, 0, SLEN, &in, 0, &o);
  __CPROVER_assume(r == RESULT_OK && o.n == 2 * SLEN - 1);
  struct cstream text; text.n = 0; text.pos = 0; text.eofbit = 0;           /* the shown text: two hex digits per group, one blank between groups */
  for (size_t k = 0; k < 2 * SLEN - 1; k++) { if (o.kind[k] == TK_NUM) { text.s[text.n] = hexdigit(((unsigned)o.val[k] >> 4) & 0xf); text.s[text.n + 1] = hexdigit((unsigned)o.val[k] & 0xf); text.n += 2; } else { text.s[text.n] = ' '; text.n += 1; } }
  SymbolString out; out.m_isMaster = 0; out.m_data.n = 1; out.m_data.d[0] = 0; size_t used = nondet_size();
  result_t w = STT_writeSymbols(&t, 0, SLEN, &text, &out, &used);
  __CPROVER_assert(w == RESULT_OK && used == SLEN && out.m_data.n == 1 + SLEN, "[C06] the hex text a byte pattern decodes to is accepted by the encoder");
  size_t k = nondet_size(); __CPROVER_assume(k < SLEN);
  if (w == RESULT_OK) __CPROVER_assert(out.m_data.d[1 + k] == in.m_data.d[1 + k], "[C06] encoding the decoded hex text reproduces the bytes");
  CANARY("hex round trip");
}
void h_rt_str(void) {
  STT t = nondet_STT(); SymbolString in = slave_with(SLEN); struct tokout o; out_init(&o); g_hex_expected = 0;
  __CPROVER_assume(!t.m_isHex && !(t.m_flags & (REV | IGN)) && (unsigned char)t.m_replacement == t.m_replacement);
  /* printable text up to padding: printable characters, then only padding (the replacement character) */
  size_t plen = nondet_size(); __CPROVER_assume(plen <= SLEN);
  for (size_t i = 0; i < SLEN; i++) { unsigned b = in.m_data.d[1 + i]; if (i < plen) __CPROVER_assume(b >= 0x20 && b < 0x7f); else __CPROVER_assume(b == t.m_replacement); }
  __CPROVER_assume(t.m_replacement == ' ' || t.m_replacement == 0);          /* STR is padded with blanks, NTS with NUL */
  result_t r = STT_readSymbols(&t, 0, SLEN, &in, 0, &o);
  __CPROVER_assume(r == RESULT_OK);
  struct cstream text; text.n = 0; text.pos = 0; text.eofbit = 0;
  for (size_t k = 0; k < SLEN; k++) { if (k < o.n && o.kind[k] == TK_CHAR) { text.s[text.n] = (unsigned char)o.val[k]; text.n += 1; } }
  SymbolString out; out.m_isMaster = 0; out.m_data.n = 1; out.m_data.d[0] = 0; size_t used = nondet_size();
  result_t w = STT_writeSymbols(&t, 0, SLEN, &text, &out, &used);
  __CPROVER_assert(w == RESULT_OK && used == SLEN && out.m_data.n == 1 + SLEN, "[C06] the text a character string decodes to is accepted by the encoder");
  size_t k = nondet_size(); __CPROVER_assume(k < SLEN);
  if (w == RESULT_OK) __CPROVER_assert(out.m_data.d[1 + k] == in.m_data.d[1 + k], "[C06] encoding the decoded text reproduces the bytes (printable text, padded with the replacement character)");
  if (plen == 2) { CANARY("string round trip"); }
}
/* encoding an arbitrary hex text: groups of two hex digits separated by blanks, missing groups are filled with the replacement */
void h_wr_hex(void) {
  STT t = nondet_STT(); struct cstream text; SymbolString out; size_t used = nondet_size();
  __CPROVER_assume(t.m_isHex && !(t.m_flags & (IGN | REV)) && t.m_replacement <= 0xff);
  text.n = nondet_size(); text.pos = 0; text.eofbit = 0; __CPROVER_assume(text.n <= 8);
  for (size_t i = 0; i < CSCAP; i++) { text.s[i] = nondet_sym(); if (i < text.n) __CPROVER_assume(text.s[i] != '+' && text.s[i] != '-' && text.s[i] != 0); }
  out.m_isMaster = 0; out.m_data.n = 1; out.m_data.d[0] = 0;
  result_t w = STT_writeSymbols(&t, 0, SLEN, &text, &out, &used);
  /* reference scan */
  size_t p = 0; unsigned exp[SLEN]; _Bool bad = 0;
  for (size_t g = 0; g < SLEN; g++) {
    exp[g] = t.m_replacement;
    if (!bad) {
      for (size_t b = 0; b < CSCAP; b++) { if (p < text.n && text.s[p] == ' ') p++; }
      if (p < text.n) {
        if (p + 1 < text.n && hexval(text.s[p]) >= 0 && hexval(text.s[p + 1]) >= 0) { exp[g] = (unsigned)(16 * hexval(text.s[p]) + hexval(text.s[p + 1])); p += 2; }
        else bad = 1;
      }
    }
  }
  if (bad) { __CPROVER_assert(w < 0, "[C07] a hex text with an incomplete or non-hex group is rejected"); CANARY("rejected"); }
  else {
    __CPROVER_assert(w == RESULT_OK && used == SLEN, "[C06,C07] a well-formed hex text is encoded");
    size_t k = nondet_size(); __CPROVER_assume(k < SLEN);
    if (w == RESULT_OK) __CPROVER_assert(out.m_data.d[1 + k] == (symbol_t)exp[k], "[C06,C07] byte k is the k-th group of two hex digits (missing groups: the replacement)");
    CANARY("encoded");
  }
}
