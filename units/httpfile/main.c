/* unit httpfile: the static file branch of MainLoop::executeGet (C18: served only from inside the HTML root).  Fragment extraction (R16), back end B2, bounded strings. */
#include "vbase.h"
#include "vstr.h"
#include "gen_types.h"
struct MainLoop { vstr m_htmlPath; };
struct oss { int dummy; };
static inline size_t vstr_find_lit2(const vstr* s, const char* lit) { return vstr_find_cstr(s, lit, 0); }
#define VF_SEL(a, b, name, ...) name
#define vstr_find_lit(s, ...) VF_SEL(__VA_ARGS__, vstr_find_cstr, vstr_find_lit2, 0)(s, __VA_ARGS__)      /* find(str) and find(str, pos) */
static inline size_t vstr_find_last_char(const vstr* s, char c) { size_t r = VSTR_NPOS; for (size_t i = 0; i < VSTR_CAP; i++) { if (i < s->n && s->d[i] == c) r = i; } return r; }
static inline vstr vstr_substr_from1(const vstr* s, size_t pos) { return vstr_substr(s, pos, VSTR_NPOS); }
static inline vstr vstr_cat(const vstr* a, const vstr* b) { vstr r = *a; vstr_append(&r, b); return r; }
static inline void vstr_append_lit(vstr* s, const char* lit) { vstr t = vstr_from_cstr(lit); vstr_append(s, &t); }
static inline _Bool vstr_eq_lit(const vstr* s, const char* lit) { vstr t = vstr_from_cstr(lit); if (s->n != t.n) return 0; _Bool eq = 1; for (size_t i = 0; i < VSTR_CAP; i++) { if (i < s->n && s->d[i] != t.d[i]) eq = 0; } return eq; }
vstr g_opened; unsigned g_open_calls, g_copy_calls;
static inline _Bool env_open(const vstr* filename) { g_opened = *filename; g_open_calls = g_open_calls + 1; return nondet_bool(); }
static inline void env_copy(struct oss* o) { g_copy_calls = g_copy_calls + 1; }
#include "gen_protos.h"
#include "gen_funcs.inc"

vstr nondet_vstr(void);
static inline _Bool has_pair(const vstr* s, char c) { _Bool f = 0; for (size_t i = 0; i + 1 < VSTR_CAP; i++) { if (i + 1 < s->n && s->d[i] == c && s->d[i + 1] == c) f = 1; } return f; }
void h_serve_file(void) {
  struct MainLoop ml; struct oss os; vstr uri = nondet_vstr(); result_t ret = RESULT_OK; int type = -1;
  ml.m_htmlPath = nondet_vstr(); g_open_calls = 0; g_copy_calls = 0;
  __CPROVER_assume(vstr_valid(&uri) && vstr_valid(&ml.m_htmlPath) && uri.n <= 8 && ml.m_htmlPath.n <= 4);
  for (size_t k = 0; k <= VSTR_CAP; k++) { if (k < uri.n) __CPROVER_assume(uri.d[k] != 0); else __CPROVER_assume(uri.d[k] == 0); if (k < ml.m_htmlPath.n) __CPROVER_assume(ml.m_htmlPath.d[k] != 0); else __CPROVER_assume(ml.m_htmlPath.d[k] == 0); }
  ML_serveFile(&ml, uri, &ret, &type, &os);
  _Bool confined = uri.n >= 1 && uri.d[0] == '/' && !has_pair(&uri, '.') && !has_pair(&uri, '/');
  if (!confined) {
    __CPROVER_assert(g_open_calls == 0 && g_copy_calls == 0 && ret == RESULT_ERR_INVALID_ARG, "[C18] a URI that does not start with / or contains .. or // is rejected and no file is opened");
    CANARY("rejected");
  }
  __CPROVER_assert(g_open_calls <= 1 && g_copy_calls <= g_open_calls, "[C18] at most one file is opened and only an opened file is served");
  if (g_open_calls == 1) {
    /* the opened name is the HTML root followed by the URI (plus index.html for a directory): with no .. component it stays below the root */
    __CPROVER_assert(g_opened.n >= ml.m_htmlPath.n + uri.n, "[C18] the file name starts with the configured HTML root and the URI");
    size_t k = nondet_size();
    if (k < ml.m_htmlPath.n) __CPROVER_assert(g_opened.d[k] == ml.m_htmlPath.d[k], "[C18] the file name starts with the configured HTML root");
    if (k < uri.n) __CPROVER_assert(g_opened.d[ml.m_htmlPath.n + k] == uri.d[k], "[C18] ... followed by the URI unchanged");
    __CPROVER_assert(g_opened.n == ml.m_htmlPath.n + uri.n || (uri.d[uri.n - 1] == '/' && g_opened.n == ml.m_htmlPath.n + uri.n + 10), "[C18] ... and nothing else but index.html for a directory");
    __CPROVER_assert(type >= 0 && type <= 8, "[C18] only files of a known content type are served");
    CANARY("opened");
    if (uri.d[uri.n - 1] == '/') { CANARY("directory index"); }
  }
}
