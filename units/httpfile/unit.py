ML_CPP = 'src/ebusd/mainloop.cpp'

UNIT = dict(
    trusted=['std::string is a bounded value model (capacity per run); ifstream::open is a stub recording the file name; only the static-file branch at the end of MainLoop::executeGet is extracted (rule R16, fragment of a function), the /data branch before it is not'],
    enums=[('src/lib/ebus/result.h', 'result_t')],
    cfg=dict(
        type_map={'string': 'vstr'},
        methods={'length': 'vstr_length', 'find': 'vstr_find_lit', 'find_last_of': 'vstr_find_last_char', 'substr': 'vstr_substr_from1', 'c_str': 'vstr_c_str'},
        index=[(r'^uri$', 'vstr_at')],
        text_subs=[(r'vstr::npos', 'VSTR_NPOS'), (r'\bret = ', '*ret_p = '), (r'\btype = ', '*type_p = '), (r'\*type_p < 0', '*type_p < 0'), (r'\btype < 0', '*type_p < 0'),
                   (r'vstr filename = self->m_htmlPath \+ uri;', 'vstr filename = vstr_cat(&self->m_htmlPath, &uri);'), (r'filename \+= "index\.html";', 'vstr_append_lit(&filename, "index.html");'),
                   (r'ext == "(\w+)"', r'vstr_eq_lit(&ext, "\1")')],
    ),
    functions=[
        dict(file=ML_CPP, name='MainLoop::executeGet', cname='ML_serveFile', self='struct MainLoop', ret='void',
             params_c=['vstr uri', 'result_t* ret_p', 'int* type_p', 'struct oss* ostream'],
             fragment=dict(start=r'if \(uri\.length\(\) < 1 \|\| uri\[0\] != \'/\'', end=r'\*connected = false;\s*return formatHttpResult\(ret, type, ostream\);\s*\}\s*$'),
             pre_subs=[(r'ifstream ifs;\s*ifs\.open\(filename\.c_str\(\), ifstream::in \| ifstream::binary\);\s*if \(!ifs\.is_open\(\)\) \{', 'if (!env_open(&filename)) {', 1),
                       (r'ifs >> ostream->rdbuf\(\);\s*ifs\.close\(\);', 'env_copy(ostream);', 1)],
             cfg=dict(members={'m_htmlPath'})),
    ],
    runs=[],
)


def R(id, entry, enforce=None, replace=(), loops=False, props=('C18', 'C20'), **kw):
    d = dict(id=id, entry=entry, enforce=enforce, replace=list(replace), loops=loops, props=list(props))
    d.update(kw)
    UNIT['runs'].append(d)

R('serve_file', 'h_serve_file', None, unwind=26, defines=['VSTR_CAP=24'], cost=60, timeout=1200, bounded='URI up to 8 characters, HTML root up to 4 characters (string model capacity)')
