/* unit poll: poll scheduling (C17): comparator axioms, getNextPoll step, priority changes, queue push/remove.  Back end B2. */
#include "vbase.h"
typedef long time_t;
#include "gen_types.h"
struct Message { unsigned int m_pollOrder; size_t m_pollPriority; time_t m_lastPollTime; _Bool m_usedByCondition, m_isPassive, scan; symbol_t m_dstAddress; time_t m_createTime; };
#define PQ_CAP 6
struct MPQ { struct Message* c[PQ_CAP]; size_t n; };
struct MessageMap { struct MPQ m_pollMessages; };
static unsigned int g_lastPollOrder;
_Bool g_heap_valid;            /* ghost: the vector is a heap w.r.t. the comparator (precondition of the std:: heap algorithms) */
unsigned g_base_push_calls, g_locks;
#include "gen_protos.h"
static inline size_t Message_getPollPriority(const struct Message* m) { return m->m_pollPriority; }
static inline _Bool Message_isScanMessage(const struct Message* m) { return m->scan; }
static inline void env_time(time_t* t) { *t = nondet_long(); }
static inline void MM_lock(struct MessageMap* m) { g_locks = g_locks + 1; }
static inline void MM_unlock(struct MessageMap* m) { g_locks = g_locks - 1; }
static inline _Bool pq_empty(const struct MPQ* q) { return q->n == 0; }
static inline size_t pq_size(const struct MPQ* q) { return q->n; }
static inline struct Message* pq_at(const struct MPQ* q, size_t i) { __CPROVER_assert(i < q->n && i < PQ_CAP, "[C20] queue index in range"); return q->c[i < PQ_CAP ? i : 0]; }
/* vector::erase(it): the following elements move down; the result is a heap only if the last element was erased */
static inline void pq_erase(struct MPQ* q, size_t i) {
  __CPROVER_assert(i < q->n, "[C20] erase of an existing element");
  for (size_t k = 0; k + 1 < PQ_CAP; k++) { if (k >= i && k + 1 < q->n) q->c[k] = q->c[k + 1]; }
  if (i + 1 != q->n) g_heap_valid = 0;
  q->n = q->n - 1;
}
static inline void pq_make_heap(struct MPQ* q) { g_heap_valid = 1; }     /* std::make_heap: permutes the vector into a heap */
/* priority_queue::top(): requires a heap; returns an element to which no other is preferred */
static inline struct Message* pq_top(struct MPQ* q) {
  __CPROVER_assert(g_heap_valid && q->n > 0, "[C17] top() is only used on a valid, non-empty heap");
  size_t i = nondet_size(); __CPROVER_assume(i < q->n && i < PQ_CAP);
  for (size_t k = 0; k < PQ_CAP; k++) { if (k < q->n) __CPROVER_assume(!Message_isLessPollWeight(q->c[i], q->c[k])); }   /* comparator(x,y) = "x is polled after y" */
  struct Message* t = q->c[i]; q->c[i] = q->c[0]; q->c[0] = t;          /* (heap: the top is at the front) */
  return t;
}
static inline void pq_pop(struct MPQ* q) {
  __CPROVER_assert(g_heap_valid && q->n > 0, "[C17] pop() is only used on a valid, non-empty heap");
  for (size_t k = 0; k + 1 < PQ_CAP; k++) { if (k + 1 < q->n) q->c[k] = q->c[k + 1]; }
  q->n = q->n - 1;
}
static inline void pq_base_push(struct MPQ* q, struct Message* x) {
  __CPROVER_assert(g_heap_valid, "[C17] push_heap requires the vector to be a valid heap (erasing from the middle must be followed by make_heap)");
  __CPROVER_assert(q->n < PQ_CAP, "model capacity of the poll queue");
  if (q->n < PQ_CAP) { q->c[q->n] = x; q->n = q->n + 1; }
  g_base_push_calls = g_base_push_calls + 1;
}
#include "gen_funcs.inc"

struct Message nondet_Message(void);
/* the comparator used by the poll queue is a strict weak order; "less weight" = polled later: higher order, then higher priority value, then later poll time */
void h_order_axioms(void) {
  struct Message a = nondet_Message(), b = nondet_Message(), c = nondet_Message();
  _Bool ab = Message_isLessPollWeight(&a, &b), ba = Message_isLessPollWeight(&b, &a), bc = Message_isLessPollWeight(&b, &c), cb = Message_isLessPollWeight(&c, &b),
        ac = Message_isLessPollWeight(&a, &c), ca = Message_isLessPollWeight(&c, &a);
  __CPROVER_assert(!Message_isLessPollWeight(&a, &a), "[C17] comparator irreflexive");
  __CPROVER_assert(!(ab && ba), "[C17] comparator asymmetric");
  __CPROVER_assert(!(ab && bc) || ac, "[C17] comparator transitive");
  __CPROVER_assert(!(!ab && !ba && !bc && !cb) || (!ac && !ca), "[C17] incomparability transitive (strict weak order)");
  __CPROVER_assert(ab == (a.m_pollOrder > b.m_pollOrder || (a.m_pollOrder == b.m_pollOrder && (a.m_pollPriority > b.m_pollPriority || (a.m_pollPriority == b.m_pollPriority && a.m_lastPollTime > b.m_lastPollTime)))),
                   "[C17] preference: lower virtual time first, then smaller priority value, then older last poll time");
  CANARY("axioms");
}
#define MSG_OK(m) ((m)->m_pollPriority >= 1 && (m)->m_pollPriority <= 9)
struct MessageMap nondet_MM(void);
/* one selection step: the selected message is one to which no other is preferred; virtual time never goes back; the selected message moves
   forward by its priority and is not placed beyond the bounded window */
void h_next_poll(void) {
  struct MessageMap mm = nondet_MM(); struct Message m[PQ_CAP]; size_t w = nondet_size();
  for (int i = 0; i < PQ_CAP; i++) { m[i] = nondet_Message(); mm.m_pollMessages.c[i] = &m[i]; __CPROVER_assume(MSG_OK(&m[i])); }
  g_lastPollOrder = nondet_uint(); g_heap_valid = 1; g_base_push_calls = 0; g_locks = 0;
  __CPROVER_assume(mm.m_pollMessages.n <= PQ_CAP && w < mm.m_pollMessages.n && g_lastPollOrder < 0x7fffff00u);
  /* invariant J: no queued message lies beyond the window [.., last + priority] */
  for (int i = 0; i < PQ_CAP; i++) __CPROVER_assume(m[i].m_pollOrder <= g_lastPollOrder + (unsigned)m[i].m_pollPriority);
  /* ... nor before the virtual time of the last selection (else it would be selected over and over until it has caught up) */
  for (int i = 0; i < PQ_CAP; i++) __CPROVER_assume(m[i].m_pollOrder >= g_lastPollOrder);
  unsigned last0 = g_lastPollOrder; struct Message before[PQ_CAP]; for (int i = 0; i < PQ_CAP; i++) before[i] = m[i];
  size_t n0 = mm.m_pollMessages.n;
  struct Message* r = MM_getNextPoll(&mm);
  __CPROVER_assert((r == NULL) == (n0 == 0), "[C17] a message is selected whenever the poll queue is not empty");
  if (r != NULL) {
    size_t ri = (size_t)(r - m);
    __CPROVER_assert(ri < PQ_CAP, "[C17] the selected message is a queued message");
    __CPROVER_assert(!Message_isLessPollWeight(&before[ri < PQ_CAP ? ri : 0], &before[w]), "[C17] no queued message is preferred over the selected one (lowest virtual time first)");
    __CPROVER_assert(g_lastPollOrder >= last0 && g_lastPollOrder >= before[ri < PQ_CAP ? ri : 0].m_pollOrder, "[C17] the virtual time never goes back and reaches the selected message");
    __CPROVER_assert(r->m_pollOrder == before[ri < PQ_CAP ? ri : 0].m_pollOrder + (unsigned)r->m_pollPriority, "[C17] the selected message advances by its priority (frequency proportional to 1/priority)");
    __CPROVER_assert(r->m_pollOrder <= g_lastPollOrder + (unsigned)r->m_pollPriority, "[C17] window invariant preserved for the selected message");
    __CPROVER_assert(m[w].m_pollOrder <= g_lastPollOrder + (unsigned)m[w].m_pollPriority, "[C17] window invariant preserved for every other queued message (bounded waiting)");
    __CPROVER_assert(m[w].m_pollOrder >= g_lastPollOrder && r->m_pollOrder >= g_lastPollOrder, "[C17] window invariant preserved: no queued message lies before the virtual time of the last selection (bounded waiting)");
    __CPROVER_assert(mm.m_pollMessages.n == n0 && g_base_push_calls == 1 && g_heap_valid, "[C17] the selected message is re-inserted, the queue stays a heap");
    __CPROVER_assert(g_locks == 0, "[C04] lock and unlock are balanced");
    CANARY("selected");
  }
}
/* push of an already queued message / remove: the entry is unique afterwards and the heap precondition of the std:: algorithms holds */
void h_push_remove(void) {
  struct MPQ q; struct Message m[PQ_CAP + 1]; size_t xi = nondet_size();
  for (int i = 0; i < PQ_CAP; i++) q.c[i] = &m[i];      /* distinct entries */
  g_heap_valid = 1; g_base_push_calls = 0;
  __CPROVER_assume(q.n <= PQ_CAP - 1 && xi <= PQ_CAP);
  struct Message* x = &m[xi]; size_t n0 = q.n; _Bool was_in = xi < n0;
  if (nondet_bool()) {
    MPQ_push(&q, x);
    __CPROVER_assert(q.n == (was_in ? n0 : n0 + 1) && g_heap_valid && g_base_push_calls == 1, "[C17] push keeps entries distinct and the vector a heap");
    size_t cnt = 0; for (size_t k = 0; k < PQ_CAP; k++) { if (k < q.n && q.c[k] == x) cnt++; }
    __CPROVER_assert(cnt == 1, "[C17] a pushed message is in the queue exactly once");
    if (was_in) { CANARY("re-push of a queued message"); }
  } else {
    MPQ_remove(&q, x);
    __CPROVER_assert(q.n == (was_in ? n0 - 1 : n0) && g_heap_valid, "[C17] remove drops exactly the entry and leaves a heap");
    size_t cnt = 0; for (size_t k = 0; k < PQ_CAP; k++) { if (k < q.n && q.c[k] == x) cnt++; }
    __CPROVER_assert(cnt == 0, "[C17] a removed message is no longer queued");
    if (was_in) { CANARY("removed"); }
  }
}
/* priority changes never move a message before the current virtual time window nor beyond it */
void h_priority(void) {
  struct Message m = nondet_Message(); size_t p = nondet_size(); g_lastPollOrder = nondet_uint();
  __CPROVER_assume(p <= 9 && m.m_pollPriority <= 9 && g_lastPollOrder < 0x7fffff00u && m.m_pollOrder < 0x7fffff00u);
  unsigned o0 = m.m_pollOrder; size_t p0 = m.m_pollPriority;
  _Bool r;
  if (nondet_bool()) { r = Message_setPollPriority(&m, p); } else { Message_setUsedByCondition(&m); r = 0; }
  __CPROVER_assert(m.m_pollPriority == 0 || m.m_pollOrder <= g_lastPollOrder + (unsigned)m.m_pollPriority || m.m_pollOrder == o0, "[C17] a pollable message is never placed beyond the window");
  __CPROVER_assert(m.m_pollOrder == o0 || m.m_pollOrder == g_lastPollOrder + (unsigned)m.m_pollPriority, "[C17] a priority change moves the message at most to the end of the current window (not before all others)");
  __CPROVER_assert(m.m_pollPriority == 0 || o0 < g_lastPollOrder || m.m_pollOrder >= g_lastPollOrder, "[C17] a priority change never moves a message before the virtual time of the last selection");
  __CPROVER_assert(p0 == 0 || m.m_pollOrder <= o0, "[C17] a priority change of an already pollable message never postpones it (bounded waiting under any sequence of priority changes)");
  __CPROVER_assert(!r || (p0 == 0 && m.m_pollPriority > 0), "[C17] the caller is told to queue the message exactly when it became pollable");
  __CPROVER_assert(!(m.m_usedByCondition) || m.m_pollPriority == 0 || m.m_pollPriority <= POLL_PRIORITY_CONDITION || m.m_pollPriority == p0, "[C17] messages used by conditions are polled at least with the condition priority");
  if (r) { CANARY("became pollable"); }
}

/* adding a poll message (new definition with a priority, condition message to the front, message that became pollable): it enters the
   queue inside the window [last, last + priority], whatever its poll order was (a freshly constructed message has order 0) */
void h_add_poll(void) {
  struct MessageMap mm = nondet_MM(); struct Message m[PQ_CAP]; struct Message x = nondet_Message(); _Bool front = nondet_bool();
  for (int i = 0; i < PQ_CAP; i++) { m[i] = nondet_Message(); mm.m_pollMessages.c[i] = &m[i]; }
  g_lastPollOrder = nondet_uint(); g_heap_valid = 1; g_base_push_calls = 0; g_locks = 0;
  __CPROVER_assume(mm.m_pollMessages.n <= PQ_CAP - 1 && g_lastPollOrder < 0x7fffff00u && x.m_pollPriority <= 9 && x.m_pollOrder < 0x7fffff00u);
  /* the message comes from its constructor (order 0) or from setPollPriority (inside the window) */
  __CPROVER_assume(x.m_pollOrder == 0 || (x.m_pollOrder >= g_lastPollOrder && x.m_pollOrder <= g_lastPollOrder + (unsigned)x.m_pollPriority));
  size_t n0 = mm.m_pollMessages.n; unsigned order0 = x.m_pollOrder;
  MM_addPollMessage(&mm, front, &x);
  if (x.m_pollPriority == 0) { __CPROVER_assert(mm.m_pollMessages.n == n0, "[C17] a message without poll priority is not queued"); }
  else {
    __CPROVER_assert(mm.m_pollMessages.n == n0 + 1 && g_heap_valid && g_locks == 0, "[C17] a message with poll priority is queued once");
    __CPROVER_assert(x.m_pollOrder >= g_lastPollOrder, "[C17] an added message does not enter the queue before the virtual time of the last selection (it would be polled alone until it has caught up)");
    __CPROVER_assert(x.m_pollOrder <= g_lastPollOrder + (unsigned)x.m_pollPriority, "[C17] an added message enters inside the window");
    if (order0 >= g_lastPollOrder) { __CPROVER_assert(x.m_pollOrder == order0, "[C17] adding a message that is already scheduled at or after the virtual time leaves its schedule unchanged (repeated additions, to the front or not, buy no extra selections and cost none)"); }
    if (order0 > g_lastPollOrder && front) { CANARY("scheduled message added to the front again"); }
    CANARY("added");
  }
}
