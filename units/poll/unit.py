MSG_CPP = 'src/lib/ebus/message.cpp'
MSG_H = 'src/lib/ebus/message.h'
SYM_H = 'src/lib/ebus/symbol.h'


def _replay(run, inputs, rp, repo, verif):
    import replay
    exe = replay.build('poll', ['src/lib/ebus/message.cpp', 'src/lib/ebus/data.cpp', 'src/lib/ebus/datatype.cpp', 'src/lib/ebus/symbol.cpp', 'src/lib/ebus/result.cpp',
                                'src/lib/ebus/filereader.cpp', 'src/lib/ebus/stringhelper.cpp', 'src/lib/ebus/contrib/contrib.cpp', 'src/lib/ebus/contrib/tem.cpp'], repo, verif)
    return replay.run(exe, [run['id']])


_IT = [(r'vector<Message\*>::iterator it = c\.begin\(\); it != c\.end\(\); it\+\+', 'size_t it = 0; it < pq_size(self); it++', 1),
       (r'\*it == __x', 'pq_at(self, it) == __x', 1), (r'c\.erase\(it\);', 'pq_erase(self, it);', 1),
       (r'std::make_heap\(c\.begin\(\), c\.end\(\), comp\);', 'pq_make_heap(self);', (0, 1))]

UNIT = dict(
    replay=_replay,
    trusted=['std::priority_queue base operations (push_heap/pop_heap/top/make_heap) are stubs: they REQUIRE the underlying vector to be a valid heap (ghost flag) and top() then is a minimal element under the comparator; erasing a non-last element invalidates the heap',
             'time() is a clock stub; lock()/unlock() are no-ops (thread schedules are not analysed)'],
    defines=[(MSG_CPP, ['POLL_PRIORITY_CONDITION'])],
    enums=[('src/lib/ebus/result.h', 'result_t'), (SYM_H, 'PredefinedSymbol', 'PredefinedSymbol', 'symbol_t')],
    cfg=dict(
        type_map={'Message': 'struct Message'},
        members={'m_pollOrder', 'm_pollPriority', 'm_lastPollTime', 'm_usedByCondition', 'm_isPassive', 'm_dstAddress', 'm_createTime', 'm_pollMessages'},
        methods={'empty': 'pq_empty', 'top': 'pq_top', 'pop': 'pq_pop', 'push': 'MPQ_push', 'size': 'pq_size', 'getPollPriority': 'Message_getPollPriority'},
        own_methods={'isScanMessage': ('Message_isScanMessage', 'self'), 'setPollPriority': ('Message_setPollPriority', 'self'), 'lock': ('MM_lock', 'self'), 'unlock': ('MM_unlock', 'self')},
        text_subs=[(r'time\(&self->m_createTime\)', 'env_time(&self->m_createTime)'), (r'time\(&\(ret->m_lastPollTime\)\)', 'env_time(&(ret->m_lastPollTime))'),
                   (r'priority_queue<struct Message\*, vector<struct Message\*>, compareMessagePriority>::push\(__x\);', 'pq_base_push(self, __x);'),
                   (r'const value_type& __x', 'struct Message* __x')],
    ),
    functions=[
        dict(file=MSG_CPP, name='Message::isLessPollWeight', cname='Message_isLessPollWeight', self='struct Message'),
        dict(file=MSG_CPP, name='Message::setPollPriority', cname='Message_setPollPriority', self='struct Message'),
        dict(file=MSG_CPP, name='Message::setUsedByCondition', cname='Message_setUsedByCondition', self='struct Message'),
        dict(file=MSG_CPP, name='MessageMap::getNextPoll', cname='MM_getNextPoll', self='struct MessageMap'),
        dict(file=MSG_CPP, name='MessageMap::addPollMessage', cname='MM_addPollMessage', self='struct MessageMap'),
        dict(file=MSG_H, inline_class='MessagePriorityQueue', name='push', cname='MPQ_push', self='struct MPQ', pre_subs=_IT, params_c=['struct Message* __x'],
             ret='void'),
        dict(file=MSG_H, inline_class='MessagePriorityQueue', name='remove', cname='MPQ_remove', self='struct MPQ', pre_subs=_IT, params_c=['struct Message* __x'], ret='void'),
    ],
    runs=[],
)


def R(id, entry, enforce=None, replace=(), loops=False, props=('C17', 'C20'), **kw):
    d = dict(id=id, entry=entry, enforce=enforce, replace=list(replace), loops=loops, props=list(props))
    d.update(kw)
    UNIT['runs'].append(d)

R('order_axioms', 'h_order_axioms', None, cost=5)
R('next_poll', 'h_next_poll', None, unwind=10, cost=10)
R('push_remove', 'h_push_remove', None, unwind=10, cost=10)
R('priority', 'h_priority', None, unwind=10, cost=10)
R('add_poll', 'h_add_poll', None, unwind=10, cost=10)
