MSG_CPP = 'src/lib/ebus/message.cpp'
MSG_H = 'src/lib/ebus/message.h'
DATA_CPP = 'src/lib/ebus/data.cpp'
DATA_H = 'src/lib/ebus/data.h'
SYM_H = 'src/lib/ebus/symbol.h'


def _replay(run, inputs, rp, repo, verif):
    import replay
    exe = replay.build('cond', ['src/lib/ebus/message.cpp', 'src/lib/ebus/data.cpp', 'src/lib/ebus/datatype.cpp', 'src/lib/ebus/symbol.cpp', 'src/lib/ebus/result.cpp',
                                'src/lib/ebus/filereader.cpp', 'src/lib/ebus/stringhelper.cpp', 'src/lib/ebus/contrib/contrib.cpp', 'src/lib/ebus/contrib/tem.cpp'], repo, verif)
    return replay.run(exe, [run['id']])


UNIT = dict(
    replay=_replay,
    trusted=['Message::decodeLastDataNumField / decodeLastData (value of the stored data) is an environment stub: a ghost "the currently stored data satisfies the condition"; time() is a monotone (non-strict) clock stub',
             'std::vector is a fixed-capacity array model (capacity 24 = MAX_POS fields / 8 conditions / 8 ranges), std::string a bounded value model'],
    enums=[('src/lib/ebus/result.h', 'result_t'), (SYM_H, 'PredefinedSymbol', 'PredefinedSymbol', 'symbol_t')],
    structs=[dict(file=SYM_H, classes=['SymbolString'], cname='SymbolString', member_types={'m_data': 'vsym'}, is_self=False)],
    cfg=dict(
        type_map={'string': 'vstr', 'SlaveSymbolString': 'SymbolString', 'MasterSymbolString': 'SymbolString', 'Message': 'struct Message'},
        members={'m_fields', 'm_dataType', 'm_name', 'm_message', 'm_lastCheckTime', 'm_isTrue', 'm_hasValues', 'm_field', 'm_conditions', 'm_valueRanges', 'm_matchedValue',
                 'm_lastUpdateTime', 'm_lastChangeTime', 'm_lastSlaveData', 'm_data', 'm_condition', 'm_createTime', 'm_availableSinceTime'},
        ranges={'m_fields': ('const struct SDF*', 'fvec_size', 'fvec_at'), 'm_conditions': ('struct Cond*', 'cvec_size', 'cvec_at')},
        methods={'hasField': [(r'^field$', 'SDF_hasField'), (r'm_data$', 'DFS_hasField')], 'getName': 'SDF_getName', 'isNumeric': 'DataType_isNumeric',
                 'getLastChangeTime': 'Message_getLastChangeTime', 'getLastCheckTime': 'Cond_getLastCheckTime', 'isTrue': 'Cond_isTrue',
                 'decodeLastDataNumField': 'Message_decodeLastDataNumField', 'length': 'vstr_length', 'c_str': 'vstr_c_str', 'size': [(r'm_valueRanges$', 'rvec_size'), (r'^data$', 'SymbolString_size')]},
        index=[(r'^m_valueRanges$', 'rvec_at')],
        own_methods={'checkValue': ('Cond_checkValue', 'self'), 'getAvailableSinceTime': ('Message_getAvailableSinceTime', 'self'), 'isAvailable': ('Message_isAvailable', 'self')},
        text_subs=[(r'fieldName == self->m_name', 'vstr_eq_cstr(&self->m_name, fieldName)'), (r'fieldName (==|!=) (SDF_getName\([^()]*\))', lambda m: '%svstr_eq_cstr_v(%s, fieldName)' % ('!' if m.group(1) == '!=' else '', m.group(2))), (r'Cond_checkValue\(self, self->m_message, self->m_field\)', 'Cond_checkValue(self, self->m_message, self->m_field)'), (r'self->m_matchedValue = AttributedItem_formatInt\(value\);', 'self->m_matchedValue = value;'),
                   (r'AttributedItem::formatInt', 'AttributedItem_formatInt'), (r'self->m_lastSlaveData != \(\*data\)', 'SymbolString_differs(&self->m_lastSlaveData, data)'),
                   (r'time\(&self->m_lastUpdateTime\)', 'env_time(&self->m_lastUpdateTime)')],
    ),
    functions=[
        dict(file=DATA_CPP, name='SingleDataField::hasField', cname='SDF_hasField', self='struct SDF'),
        dict(file=DATA_CPP, name='DataFieldSet::hasField', cname='DFS_hasField', self='struct DFS'),
        dict(file=MSG_CPP, name='SimpleCondition::isTrue', cname='SimpleCondition_isTrue', self='struct Cond'),
        dict(file=MSG_CPP, name='CombinedCondition::isTrue', cname='CombinedCondition_isTrue', self='struct CombCond'),
        dict(file=MSG_CPP, name='SimpleNumericCondition::checkValue', cname='NumCond_checkValue', self='struct Cond'),
        dict(file=MSG_CPP, name='Message::getAvailableSinceTime', cname='Message_getAvailableSinceTime', self='struct Message'),
        dict(file=MSG_CPP, name='Message::isAvailable', cname='Message_isAvailable', self='struct Message'),
        dict(file=MSG_CPP, name='Message::storeLastData', sig='(size_t index, const SlaveSymbolString& data)', cname='Message_storeLastSlave', self='struct Message'),
    ],
    runs=[],
)


def R(id, entry, enforce=None, replace=(), loops=False, props=('C13', 'C20'), **kw):
    d = dict(id=id, entry=entry, enforce=enforce, replace=list(replace), loops=loops, props=list(props))
    d.update(kw)
    UNIT['runs'].append(d)

R('hasField', 'h_hasField', None, unwind=26, defines=['VSTR_CAP=4', 'SS_CAP=16'], cost=20)
R('cond_steps', 'h_cond_steps', None, unwind=18, defines=['VSTR_CAP=4', 'SS_CAP=16'], cost=20)
R('num_check', 'h_num_check', None, unwind=6, solver='kissat', defines=['VSTR_CAP=4', 'SS_CAP=16'], cost=10)
R('combined', 'h_combined', None, unwind=10, defines=['VSTR_CAP=4', 'SS_CAP=16'], cost=10)
R('available', 'h_available', None, unwind=4, defines=['VSTR_CAP=4', 'SS_CAP=16'], cost=5)
