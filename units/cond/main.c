/* unit cond: conditional availability (C13): SimpleCondition::isTrue / CombinedCondition::isTrue / SimpleNumericCondition::checkValue,
 * Message::storeLastData (change bookkeeping), DataFieldSet::hasField / SingleDataField::hasField.  Back end B2. */
#include "vbase.h"
#include "vstr.h"
#include "vvec.h"
typedef long time_t;
typedef long ssize_t;
#include "gen_types.h"

struct DataType { _Bool numeric; };
struct SDF { vstr m_name; const struct DataType* m_dataType; };
#define FCAP 24
struct fvec { const struct SDF* e[FCAP]; size_t n; };
struct DFS { struct fvec m_fields; };
static inline size_t fvec_size(const struct fvec* v) { return v->n; }
static inline const struct SDF* fvec_at(const struct fvec* v, size_t i) { __CPROVER_assert(i < v->n && i < FCAP, "vector index in range"); return v->e[i < FCAP ? i : 0]; }
static inline _Bool DataType_isNumeric(const struct DataType* t) { return t->numeric; }
static inline _Bool vstr_eq_cstr(const vstr* s, const char* c) {
  _Bool eq = 1;
  for (size_t i = 0; i <= VSTR_CAP; i++) { if (i < s->n && eq) { if (c[i] != s->d[i]) eq = 0; } else if (i == s->n && eq) { if (c[i] != 0) eq = 0; } }
  return eq;
}

struct Cond;
struct Message { time_t m_lastUpdateTime, m_lastChangeTime; SymbolString m_lastSlaveData; struct Cond* m_condition; time_t m_createTime, m_availableSinceTime; };
#define RCAP 8
struct rvec { unsigned e[RCAP]; size_t n; };
static inline size_t rvec_size(const struct rvec* v) { return v->n; }
static inline unsigned rvec_at(const struct rvec* v, size_t i) { __CPROVER_assert(i < v->n && i < RCAP, "vector index in range"); return v->e[i < RCAP ? i : 0]; }
struct Cond { time_t m_lastCheckTime; _Bool m_isTrue; _Bool m_hasValues; struct Message* m_message; vstr m_field; struct rvec m_valueRanges; unsigned m_matchedValue; };
#define CCAP 8
struct cvec { struct Cond* e[CCAP]; size_t n; };
struct CombCond { struct cvec m_conditions; };
static inline size_t cvec_size(const struct cvec* v) { return v->n; }
static inline struct Cond* cvec_at(const struct cvec* v, size_t i) { __CPROVER_assert(i < v->n && i < CCAP, "vector index in range"); return v->e[i < CCAP ? i : 0]; }
static inline time_t Message_getLastChangeTime(const struct Message* m) { return m->m_lastChangeTime; }
static inline size_t SymbolString_size(const SymbolString* s) { return s->m_data.n; }
static inline _Bool SymbolString_differs(const SymbolString* a, const SymbolString* b) { return a->m_isMaster != b->m_isMaster || !vsym_equal(&a->m_data, &b->m_data); }
static inline unsigned AttributedItem_formatInt(unsigned v) { return v; }

/* ghost: does the data currently stored in the referenced message satisfy the condition's value list (meaning of checkValue) */
_Bool g_cur_match; unsigned g_check_calls; time_t g_clock;
unsigned g_field_value; int g_decode_result;
static inline void env_time(time_t* t) { time_t n = nondet_long(); __CPROVER_assume(n >= g_clock && n < (1L << 33)); g_clock = n; *t = n; }   /* monotone, may repeat a second */
static inline result_t Message_decodeLastDataNumField(const struct Message* m, const char* field, ssize_t idx, unsigned* out) { if (g_decode_result == RESULT_OK) *out = g_field_value; return (result_t)g_decode_result; }
/* SingleDataField::getName(-1) (not extracted): the name of the field itself */
static inline vstr SDF_getName(const struct SDF* f, long idx) { (void)idx; return f->m_name; }
static inline _Bool vstr_eq_cstr_v(vstr s, const char* c) { return vstr_eq_cstr(&s, c); }
#include "gen_protos.h"
static inline _Bool Cond_checkValue(struct Cond* self, struct Message* m, vstr field) { g_check_calls = g_check_calls + 1; return g_cur_match; }
_Bool g_sub_true[CCAP]; unsigned g_sub_calls;
static inline _Bool Cond_isTrue(struct Cond* c) { g_sub_calls = g_sub_calls + 1; size_t k = (size_t)c->m_lastCheckTime; return g_sub_true[k < CCAP ? k : 0]; }
static inline time_t Cond_getLastCheckTime(const struct Cond* c) { return c->m_lastCheckTime; }
#include "gen_funcs.inc"

/* a field satisfies a request for (name or any, numeric or string) iff its kind matches and the name is absent or equal */
static inline _Bool spec_field_matches(const struct SDF* f, const char* name, _Bool numeric) { return f->m_dataType->numeric == numeric && (name == NULL || vstr_eq_cstr(&f->m_name, name)); }

void h_hasField(void) {
  struct DFS set; struct SDF fields[FCAP]; struct DataType tn, ts; char name[VSTR_CAP + 1]; _Bool numeric = nondet_bool(); _Bool named = nondet_bool(); size_t w = nondet_size();
  tn.numeric = 1; ts.numeric = 0;
  for (int i = 0; i < FCAP; i++) { set.m_fields.e[i] = &fields[i]; fields[i].m_dataType = nondet_bool() ? &tn : &ts; __CPROVER_assume(vstr_valid(&fields[i].m_name)); }
  __CPROVER_assume(set.m_fields.n <= FCAP && name[VSTR_CAP] == 0 && w < set.m_fields.n);
  _Bool r = DFS_hasField(&set, named ? name : NULL, numeric);
  /* w is an arbitrary field index: no field may match if the answer is "no"; and a "yes" needs a matching field */
  __CPROVER_assert(r || !spec_field_matches(&fields[w], named ? name : NULL, numeric), "[C13] hasField is false only if no field of the required kind (and name) exists");
  _Bool any = 0;
  for (size_t i = 0; i < FCAP; i++) { if (i < set.m_fields.n && spec_field_matches(&fields[i], named ? name : NULL, numeric)) any = 1; }
  __CPROVER_assert(r == any, "[C13] hasField(name, kind) iff some field of that kind (named so, or any if unnamed) exists, whatever the number and kinds of fields");
  if (r) { CANARY("has field"); } else { CANARY("no such field"); }
  if (set.m_fields.n == FCAP) { CANARY("24 fields"); }
}

/* inductive step over the history of updates and queries: INV is preserved by a data update (storeLastData) and by a query (isTrue),
   and a query returns the specified truth value */
#define SPEC_TRUE(c, m) ((m)->m_lastChangeTime > 0 && ((c)->m_hasValues ? g_cur_match : 1))   /* nothing stored yet: not available */
#define COND_INV(c, m) ((m)->m_lastChangeTime >= 0 && (m)->m_lastChangeTime <= g_clock && (m)->m_lastUpdateTime <= g_clock && (c)->m_lastCheckTime >= 0 && (c)->m_lastCheckTime <= (m)->m_lastChangeTime \
   && ((c)->m_lastCheckTime == 0 ? !(c)->m_isTrue : 1) && ((m)->m_lastChangeTime < (c)->m_lastCheckTime ==> (c)->m_isTrue == SPEC_TRUE(c, m)))
/* (a cached verdict is only trusted when it is newer than the last change; with second resolution that never holds, so every query re-evaluates) */
struct Message nondet_Message(void); struct Cond nondet_Cond(void); SymbolString nondet_SS(void);
void h_cond_steps(void) {
  struct Message m = nondet_Message(); struct Cond c = nondet_Cond(); c.m_message = &m; g_cur_match = nondet_bool(); g_clock = nondet_long(); g_check_calls = 0;
  __CPROVER_assume(g_clock >= 0 && g_clock < (1L << 33) && m.m_lastSlaveData.m_data.n <= SS_CAP && !m.m_lastSlaveData.m_isMaster);
  __CPROVER_assume(COND_INV(&c, &m));
  if (nondet_bool()) {
    _Bool r = SimpleCondition_isTrue(&c);
    __CPROVER_assert(r == SPEC_TRUE(&c, &m), "[C13] isTrue() equals: the most recently stored data satisfies the condition (or, without values: the message was seen)");
    __CPROVER_assert(COND_INV(&c, &m), "[C13] condition cache invariant preserved by a query");
    if (r) { CANARY("true"); } else { CANARY("false"); }
  } else {
    SymbolString d = nondet_SS();
    __CPROVER_assume(d.m_data.n <= SS_CAP && !d.m_isMaster && d.m_data.n > 0);
    _Bool differs = SymbolString_differs(&m.m_lastSlaveData, &d);
    time_t change0 = m.m_lastChangeTime;
    Message_storeLastSlave(&m, 0, &d);
    if (differs) g_cur_match = nondet_bool();     /* new data: it may or may not satisfy the condition */
    __CPROVER_assert(!differs || !SymbolString_differs(&m.m_lastSlaveData, &d), "[C09,C13] changed data is stored");
    __CPROVER_assert(differs || m.m_lastChangeTime == change0, "[C13] unchanged data is not a change");
    __CPROVER_assert(COND_INV(&c, &m), "[C13] condition cache invariant preserved by a data update (also when several updates share one second)");
    if (differs && m.m_lastChangeTime == change0) { CANARY("two changes in the same second"); }
  }
}

void h_num_check(void) {
  struct Cond c = nondet_Cond(); struct Message m; g_field_value = nondet_uint(); g_decode_result = nondet_bool() ? RESULT_OK : RESULT_ERR_NOTFOUND; size_t w = nondet_size();
  __CPROVER_assume(c.m_valueRanges.n <= RCAP && (c.m_valueRanges.n & 1) == 0 && vstr_valid(&c.m_field) && w + 1 < c.m_valueRanges.n && (w & 1) == 0);
  _Bool r = NumCond_checkValue(&c, &m, &c.m_field);
  __CPROVER_assert(r || g_decode_result != RESULT_OK || !(c.m_valueRanges.e[w] <= g_field_value && g_field_value <= c.m_valueRanges.e[w + 1]), "[C13] numeric condition is false only if the value lies in none of the ranges");
  _Bool any = 0;
  for (size_t i = 0; i < RCAP; i += 2) { if (i + 1 < c.m_valueRanges.n && c.m_valueRanges.e[i] <= g_field_value && g_field_value <= c.m_valueRanges.e[i + 1]) any = 1; }
  __CPROVER_assert(r == (g_decode_result == RESULT_OK && any), "[C13] numeric condition is true iff the field decodes and its value lies in one of the ranges");
  if (r) { CANARY("in range"); }
}

void h_combined(void) {
  struct CombCond cc; struct Cond parts[CCAP]; g_sub_calls = 0;
  for (int i = 0; i < CCAP; i++) { cc.m_conditions.e[i] = &parts[i]; parts[i].m_lastCheckTime = i; g_sub_true[i] = nondet_bool(); }
  __CPROVER_assume(cc.m_conditions.n <= CCAP);
  _Bool r = CombinedCondition_isTrue(&cc);
  _Bool all = 1;
  for (size_t i = 0; i < CCAP; i++) { if (i < cc.m_conditions.n && !g_sub_true[i]) all = 0; }
  __CPROVER_assert(r == all, "[C13] a combined condition is true iff all its parts are true");
  if (r && cc.m_conditions.n == 3) { CANARY("three parts true"); }
}

/* a message is available iff it has no condition or its condition (simple or combined) is true - whatever the condition's check time is
   (a combined condition never records one) */
void h_available(void) {
  struct Message m; struct Cond c; _Bool has = nondet_bool();
  m.m_createTime = nondet_long(); m.m_availableSinceTime = nondet_long(); __CPROVER_assume(m.m_createTime > 0 && m.m_availableSinceTime >= 0);
  size_t k = nondet_size(); __CPROVER_assume(k < CCAP); c.m_lastCheckTime = (time_t)k;       /* the stub of isTrue() reads the verdict slot from here; slot 0 = no check time recorded */
  g_sub_true[k] = nondet_bool(); g_sub_calls = 0; m.m_condition = has ? &c : NULL;
  _Bool r = Message_isAvailable(&m);
  __CPROVER_assert(r == (!has || g_sub_true[k]), "[C13] a message is available iff it has no condition or its condition is true (also a combined condition, which records no check time)");
  time_t since = Message_getAvailableSinceTime(&m);
  __CPROVER_assert(has || since == m.m_createTime, "[C13] without condition a message is available since its creation");
  __CPROVER_assert(!has || g_sub_true[k] || since == 0, "[C13] a message whose condition is false has no available-since time");
  if (has && g_sub_true[k] && k == 0) { CANARY("true condition without check time"); }
  if (has && !g_sub_true[k]) { CANARY("false condition"); }
}
