/* unit dumpid: the id column a dump writes for a chained message definition, ChainedMessage::dumpField (C19, C12, C20).
 * Output is a token stream (R11); the stream's format state on entry is arbitrary.  Back end B2. */
#include "vbase.h"
#include "vvec.h"
#include "vstr.h"
#include "gen_types.h"
#define TCAP 40
enum tokkind { TK_STR = 1, TK_CHAR, TK_NUM };
struct tokout { int kind[TCAP]; long val[TCAP]; int width[TCAP]; _Bool hexnum[TCAP]; char fillc[TCAP]; size_t n; int cur_width; char fill; _Bool is_dec; };
static inline void tok_add(struct tokout* o, int kind, long val, int width) {
  __CPROVER_assert(o->n < TCAP, "model capacity: more output tokens than TCAP");
  if (o->n < TCAP) { o->kind[o->n] = kind; o->val[o->n] = val; o->width[o->n] = width; o->hexnum[o->n] = !o->is_dec; o->fillc[o->n] = o->fill; o->n = o->n + 1; }
}
static inline void out_char(struct tokout* o, char c) { tok_add(o, TK_CHAR, (unsigned char)c, 0); o->cur_width = 0; }
static inline void out_dec(struct tokout* o) { o->is_dec = 1; }
static inline void out_hex(struct tokout* o) { o->is_dec = 0; }
static inline void out_fill(struct tokout* o, char c) { o->fill = c; }
static inline void out_setw(struct tokout* o, int w) { o->cur_width = w; }
static inline void out_num(struct tokout* o, long v) { tok_add(o, TK_NUM, v, o->cur_width); o->cur_width = 0; }
#define OUT_NUM(o, x) out_num(o, (long)(x))
#define CH_CAP 3
struct idvec { vsym e[CH_CAP]; size_t n; };
struct lenvec { size_t e[CH_CAP]; size_t n; };
struct ChainedMessage { struct idvec m_ids; struct lenvec m_lengths; };
_Bool g_is_id; unsigned g_base_dumps;
static inline _Bool env_is_id(const vstr* name) { (void)name; return g_is_id; }
static inline void env_base_dump(void) { g_base_dumps = g_base_dumps + 1; }
#include "gen_protos.h"
#include "gen_funcs.inc"

struct tokout nondet_tokout(void);
/* the id column of a chained definition: for every part the id bytes after PB SB as two hex digits each, ':' and the part length in DECIMAL
   (Message::create reads the length back with base 10), parts separated by ';' - whatever format state the stream was left in */
void h_dump_chain_id(void) {
  struct ChainedMessage cm; struct tokout out = nondet_tokout(); vstr name; name.n = 2; name.d[0] = 'i'; name.d[1] = 'd'; name.d[2] = 0;
  out.n = 0; g_is_id = nondet_bool(); g_base_dumps = 0;
  cm.m_ids.n = nondet_size(); __CPROVER_assume(cm.m_ids.n >= 1 && cm.m_ids.n <= CH_CAP); cm.m_lengths.n = cm.m_ids.n;
  for (size_t k = 0; k < CH_CAP; k++) { cm.m_ids.e[k].n = nondet_size(); __CPROVER_assume(cm.m_ids.e[k].n >= 2 && cm.m_ids.e[k].n <= 6);
    for (size_t j = 0; j < 6; j++) cm.m_ids.e[k].d[j] = nondet_uchar(); cm.m_lengths.e[k] = nondet_size(); __CPROVER_assume(cm.m_lengths.e[k] <= 255); }
  CM_dumpField(&cm, &name, nondet_bool(), nondet_int(), &out);
  if (!g_is_id) { __CPROVER_assert(out.n == 0 && g_base_dumps == 1, "[C19] other columns are written by the base class"); return; }
  /* expected token sequence */
  size_t t = 0; _Bool ok = 1;
  for (size_t k = 0; k < CH_CAP; k++) {
    if (k < cm.m_ids.n) {
      if (k > 0) { if (!(t < out.n && out.kind[t] == TK_CHAR && out.val[t] == ';')) ok = 0; t = t + 1; }
      for (size_t j = 2; j < 6; j++) {
        if (j < cm.m_ids.e[k].n) {
          if (!(t < out.n && t < TCAP && out.kind[t] == TK_NUM && out.val[t] == cm.m_ids.e[k].d[j] && out.hexnum[t] && out.width[t] == 2 && out.fillc[t] == '0')) ok = 0;
          t = t + 1;
        }
      }
      if (!(t < out.n && t < TCAP && out.kind[t] == TK_CHAR && out.val[t] == ':')) ok = 0; t = t + 1;
      if (!(t < out.n && t < TCAP && out.kind[t] == TK_NUM && out.val[t] == (long)cm.m_lengths.e[k] && out.width[t] == 0)) ok = 0;
      __CPROVER_assert(!(t < out.n && t < TCAP) || !out.hexnum[t], "[C19,C12] the part length of a chained id is written in decimal (it is read back with base 10), whatever was printed on the stream before");
      t = t + 1;
    }
  }
  __CPROVER_assert(ok && out.n == t, "[C19] the id column of a chained definition is id bytes as two hex digits, ':' and the part length, parts separated by ';'");
  if (cm.m_ids.n == 3 && cm.m_lengths.e[2] >= 10) { CANARY("three parts, length >= 10"); }
}
