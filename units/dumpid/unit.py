MSG_CPP = 'src/lib/ebus/message.cpp'
FR_H = 'src/lib/ebus/filereader.h'
DATA_H = 'src/lib/ebus/datatype.h'

# ChainedMessage::dumpField("id"): the id column of a chained definition as it is written by a dump: output as a token stream (R11)
_DUMP = [(r'if \(fieldName != "id"\) \{\s*Message::dumpField\(fieldName, withConditions, outputFormat, output\);\s*return;\s*\}', 'if (!env_is_id(fieldName)) {\n    env_base_dump();\n    return;\n  }', 1),
         (r'm_ids\.size\(\)', 'm_ids.n', 1),
         (r'vector<symbol_t> id = m_ids\[index\];', 'const vsym* id = &m_ids.e[index];', 1),
         (r'for \(auto it = id\.begin\(\)\+2; it < id\.end\(\); it\+\+\) \{', 'for (size_t it = 2; it < id->n; it++) {', 1),
         (r'static_cast<unsigned>\(\*it\)', '(unsigned)vsym_get(id, it)', 1),
         (r'm_lengths\[index\]', 'm_lengths.e[index]', 1),
         (r'<< (VALUE_SEPARATOR|LENGTH_SEPARATOR)\b', lambda m: '<< static_cast<char>(%s)' % m.group(1), 2)]

UNIT = dict(
    trusted=['std::ostream is a token stream model with its format state (base, width, fill) as nondeterministic input; vector<vector<symbol_t>> / vector<size_t> are fixed-capacity arrays'],
    defines=[(FR_H, ['VALUE_SEPARATOR']), (DATA_H, ['LENGTH_SEPARATOR'])],
    cfg=dict(type_map={'string': 'vstr'}, members={'m_ids', 'm_lengths'}),
    functions=[
        dict(file=MSG_CPP, name='ChainedMessage::dumpField', cname='CM_dumpField', self='struct ChainedMessage', ret='void',
             params_c=['const vstr* fieldName', '_Bool withConditions', 'int outputFormat', 'struct tokout* output'], pre_subs=_DUMP,
             stream_out=dict(vars=['output'], min=3)),
    ],
    runs=[],
)


def R(id, entry, enforce=None, replace=(), loops=False, props=('C19', 'C12', 'C20'), **kw):
    d = dict(id=id, entry=entry, enforce=enforce, replace=list(replace), loops=loops, props=list(props))
    d.update(kw)
    UNIT['runs'].append(d)

R('chain_id', 'h_dump_chain_id', None, unwind=8, cost=20, defines=['SS_CAP=8'], bounded='chains of up to 3 parts with ids of up to 6 bytes')
