/* Deterministic stubs of the SymbolString accessors for harness-enforced (B2) units.  Each stub asserts the
 * precondition of the accessor's contract (model/ss_contracts.h) and produces exactly the state its postcondition
 * describes; the contracts themselves are enforced against the real inline bodies of symbol.h in unit symbol. */
#ifndef SS_STUBS_H
#define SS_STUBS_H
static inline symbol_t* SymbolString_at_nc_inb(SymbolString* self, size_t index) {
  __CPROVER_assert(self->m_data.n <= SS_CAP && index < self->m_data.n, "[C20] SymbolString::operator[] (non-const) within size: no silent growth");
  return &self->m_data.d[index < SS_CAP ? index : 0];
}
static inline symbol_t SymbolString_at(const SymbolString* self, size_t index) {
  __CPROVER_assert(self->m_data.n <= SS_CAP, "SymbolString valid");
  return index < self->m_data.n ? self->m_data.d[index] : (symbol_t)0xAA;
}
static inline void SymbolString_push_back(SymbolString* self, symbol_t value) {
  __CPROVER_assert(self->m_data.n < SS_CAP, "[C20] model capacity: SymbolString grows beyond SS_CAP (a part longer than 5+255 / 1+255 symbols)");
  if (self->m_data.n < SS_CAP) { self->m_data.d[self->m_data.n] = value; self->m_data.n = self->m_data.n + 1; }
}
static inline size_t SymbolString_size(const SymbolString* self) { return self->m_data.n; }
static inline void SymbolString_clear(SymbolString* self) { self->m_data.n = 0; }
static inline _Bool SymbolString_isComplete(const SymbolString* self) {
  size_t lo = self->m_isMaster ? 4 : 0;
  __CPROVER_assert(self->m_data.n <= SS_CAP, "SymbolString valid");
  return self->m_data.n >= lo + 1 && self->m_data.n >= lo + 1 + self->m_data.d[lo];
}
#ifdef SS_STUBS_DATA
static inline _Bool SymbolString_adjustHeader(SymbolString* self) {
  size_t lo = self->m_isMaster ? 4 : 0;
  __CPROVER_assert(self->m_data.n <= SS_CAP, "SymbolString valid");
  if (self->m_data.n <= lo) {
    for (size_t k = 0; k < 5; k++) { if (k >= self->m_data.n && k <= lo) self->m_data.d[k] = 0; }
    self->m_data.n = lo + 1;
  } else if (self->m_data.n >= lo + 255) return 0;
  self->m_data.d[lo] = (symbol_t)(self->m_data.n - lo - 1);
  return 1;
}
static inline size_t SymbolString_getDataSize(const SymbolString* self) {
  size_t lo = self->m_isMaster ? 4 : 0;
  if (self->m_data.n <= lo) return 0;
  size_t ret = self->m_data.d[lo];
  return self->m_data.n < lo + 1 + ret ? self->m_data.n - lo - 1 : ret;
}
static inline symbol_t SymbolString_dataAt(const SymbolString* self, size_t index) {
  size_t off = (self->m_isMaster ? 5 : 1) + index;
  return off < self->m_data.n ? self->m_data.d[off < SS_CAP ? off : 0] : 0;
}
#endif
#endif
