/* common base of all verification units (C view of the basic types) */
#ifndef VBASE_H
#define VBASE_H
#include <stdint.h>
#include <stddef.h>
#include <stdbool.h>
#ifndef NULL
#define NULL ((void*)0)
#endif
typedef unsigned char symbol_t;

#ifdef VERIF_CBMC
symbol_t nondet_sym(void); unsigned nondet_uint(void); int nondet_int(void); _Bool nondet_bool(void); size_t nondet_size(void);
unsigned long nondet_ulong(void); long nondet_long(void); float nondet_float(void); double nondet_double(void); char nondet_char(void); unsigned short nondet_ushort(void);
#define GHOST(x) x
#define COVER(c) __CPROVER_cover(c)
/* must-fail reachability canary: expected status FAILURE; a SUCCESS means the path is vacuous */
#define CANARY(name) __CPROVER_assert(0, "[CANARY] " name)
#define ASSERT(c, msg) __CPROVER_assert(c, msg)
#define ASSUME(c) __CPROVER_assume(c)
#else
#define GHOST(x) x
#define COVER(c)
#define CANARY(name)
#define ASSERT(c, msg) verif_native_assert((c), msg)
#define ASSUME(c) verif_native_assume(c)
#endif
#endif
