/* shared C view of the protocol handler environment: device, listener, queues, requests (stubs are
 * supplied by the units that need them) */
#ifndef VHANDLER_H
#define VHANDLER_H
#include "vbase.h"
#include "vvec.h"
struct vtimespec { long tv_sec; long tv_nsec; };
struct Device; struct ProtocolListener; struct BusRequest;
typedef struct Queue { int dummy; } Queue;
#endif
