/* Specification functions for unit symbol -- written from the eBUS specification / property C11,
 * not from the code.  Loop-free C so that they can be called from contracts and loop invariants;
 * also compiled natively (C++) by the replay drivers. */
#ifndef SYMBOL_SPEC_H
#define SYMBOL_SPEC_H

/* one step of polynomial division: c(x)*x mod (x^8+x^7+x^4+x^3+x+1) */
static inline unsigned spec_mulx(unsigned c) { c <<= 1; if (c & 0x100u) c ^= 0x19Bu; return c & 0xffu; }

/* CRC-8 step of the eBUS specification: crc' = crc(x)*x^8 mod P  xor  value */
static inline unsigned char spec_crc_step(unsigned char crc, unsigned char value) {
  unsigned c = crc;
  c = spec_mulx(c); c = spec_mulx(c); c = spec_mulx(c); c = spec_mulx(c);
  c = spec_mulx(c); c = spec_mulx(c); c = spec_mulx(c); c = spec_mulx(c);
  return (unsigned char)(c ^ value);
}
/* CRC over the escaped representation of one unescaped symbol: A9 -> A9 00, AA -> A9 01 */
static inline unsigned char spec_crc_esc(unsigned char crc, unsigned char sym) {
  if (sym == 0xA9) return spec_crc_step(spec_crc_step(crc, 0xA9), 0x00);
  if (sym == 0xAA) return spec_crc_step(spec_crc_step(crc, 0xA9), 0x01);
  return spec_crc_step(crc, sym);
}
/* 1-based index of a nibble in the master nibble list {0,1,3,7,F}, 0 if not in the list */
static inline unsigned spec_part_index(unsigned char nib) {
  return nib == 0x0 ? 1u : nib == 0x1 ? 2u : nib == 0x3 ? 3u : nib == 0x7 ? 4u : nib == 0xF ? 5u : 0u;
}
/* both nibbles in {0,1,3,7,F}: bit mask 0x808B over nibble values */
static inline _Bool spec_is_master(unsigned char a) {
  return ((0x808Bu >> (a & 0x0F)) & 1u) && ((0x808Bu >> (a >> 4)) & 1u);
}
/* master number 1..25: 5*(priority class index of low nibble - 1) + index of high nibble; 0 if no master */
static inline unsigned spec_master_number(unsigned char a) {
  if (!spec_is_master(a)) return 0;
  return 5u * (spec_part_index(a & 0x0F) - 1u) + spec_part_index((unsigned char)(a >> 4));
}
static inline int spec_hexval(char c) {
  if (c >= '0' && c <= '9') return c - '0';
  if (c >= 'a' && c <= 'f') return c - 'a' + 10;
  if (c >= 'A' && c <= 'F') return c - 'A' + 10;
  return -1;
}
static inline int spec_decval(char c) { return (c >= '0' && c <= '9') ? c - '0' : -1; }
#endif
