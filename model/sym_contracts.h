/* contracts of the free address functions and updateCrc of symbol.cpp; enforced in unit symbol, replaced elsewhere */
#ifndef SYM_CONTRACTS_H
#define SYM_CONTRACTS_H
#include "sym_spec.h"
void SymbolString_updateCrc(symbol_t value, symbol_t* crc)
__CPROVER_requires(__CPROVER_is_fresh(crc, sizeof(*crc)))
__CPROVER_assigns(*crc)
__CPROVER_ensures(*crc == spec_crc_step(__CPROVER_old(*crc), value));

unsigned int getMasterPartIndex(symbol_t bits)
__CPROVER_requires(1)
__CPROVER_assigns()
__CPROVER_ensures(__CPROVER_return_value == spec_part_index(bits));

_Bool isMaster(symbol_t addr)
__CPROVER_requires(1)
__CPROVER_assigns()
__CPROVER_ensures(__CPROVER_return_value == spec_is_master(addr));

_Bool isSlaveMaster(symbol_t addr)
__CPROVER_requires(1)
__CPROVER_assigns()
__CPROVER_ensures(__CPROVER_return_value == spec_is_master((symbol_t)(addr - 5)));

_Bool isValidAddress(symbol_t addr, _Bool allowBroadcast)
__CPROVER_requires(1)
__CPROVER_assigns()
__CPROVER_ensures(__CPROVER_return_value == (addr != 0xAA && addr != 0xA9 && (allowBroadcast || addr != 0xFE)));

symbol_t getSlaveAddress(symbol_t addr)
__CPROVER_requires(1)
__CPROVER_assigns()
__CPROVER_ensures(spec_is_master(addr) ==> __CPROVER_return_value == (symbol_t)(addr + 5))
__CPROVER_ensures(!spec_is_master(addr) && addr != 0xAA && addr != 0xA9 && addr != 0xFE ==> __CPROVER_return_value == addr)
__CPROVER_ensures(addr == 0xAA || addr == 0xA9 || addr == 0xFE ==> __CPROVER_return_value == 0xAA);

symbol_t getMasterAddress(symbol_t addr)
__CPROVER_requires(1)
__CPROVER_assigns()
__CPROVER_ensures(spec_is_master(addr) ==> __CPROVER_return_value == addr)
__CPROVER_ensures(!spec_is_master(addr) && spec_is_master((symbol_t)(addr - 5)) ==> __CPROVER_return_value == (symbol_t)(addr - 5))
__CPROVER_ensures(!spec_is_master(addr) && !spec_is_master((symbol_t)(addr - 5)) ==> __CPROVER_return_value == 0xAA);

unsigned int getMasterNumber(symbol_t addr)
__CPROVER_requires(1)
__CPROVER_assigns()
__CPROVER_ensures(__CPROVER_return_value == spec_master_number(addr));

#endif
