/* C models of the libc functions the extracted code calls (trusted base, differential-tested natively
 * by tools/selfcheck_models at setup).  strtoul/strtol follow ISO C 7.22.1.4 for the "C" locale:
 * optional white space, optional sign, optional 0x/0X for base 16 (or 0), digits; no digits => no
 * conversion, endptr = nptr; overflow => ULONG_MAX/LONG_MAX/LONG_MIN and errno = ERANGE;
 * errno is left untouched on success. */
#ifndef VLIBC_H
#define VLIBC_H
#include "vbase.h"
#ifndef VERIF_ERANGE
#define VERIF_ERANGE 34
#endif
#ifndef ERANGE
#define ERANGE VERIF_ERANGE
#endif
extern int verif_errno;
#define errno verif_errno

static inline int vl_isspace(char c) { return c == ' ' || (c >= '\t' && c <= '\r'); }
static inline int vl_digit(char c, int base) {
  int v = -1;
  if (c >= '0' && c <= '9') v = c - '0';
  else if (c >= 'a' && c <= 'z') v = c - 'a' + 10;
  else if (c >= 'A' && c <= 'Z') v = c - 'A' + 10;
  if (v >= base) v = -1;
  return v;
}
#ifndef VLIBC_MAXLEN
#define VLIBC_MAXLEN 8
#endif
/* magnitude parser shared by strtoul/strtol; the text is at most VLIBC_MAXLEN chars (bound of the
 * string model).  Returns magnitude in *mag, overflow flag if it exceeds 64 bits. */
static inline const char* vl_scan(const char* s, int base, _Bool* neg, unsigned long* mag, _Bool* ovf, _Bool* any) {
  const char* p = s;
  *neg = 0; *mag = 0; *ovf = 0; *any = 0;
  for (int k = 0; k < VLIBC_MAXLEN && vl_isspace(*p); k++) p++;
  if (*p == '-') { *neg = 1; p++; } else if (*p == '+') { p++; }
  if ((base == 0 || base == 16) && p[0] == '0' && (p[1] == 'x' || p[1] == 'X') && vl_digit(p[2], 16) >= 0) { p += 2; base = 16; }
  else if (base == 0) { base = (p[0] == '0') ? 8 : 10; }
  for (int k = 0; k < VLIBC_MAXLEN; k++) {
    int d = vl_digit(*p, base);
    if (d < 0) break;
    *any = 1;
    unsigned long m = *mag;
    if (m > (0xffffffffffffffffUL - (unsigned long)d) / (unsigned long)base) { *ovf = 1; }
    else { *mag = m * (unsigned long)base + (unsigned long)d; }
    p++;
  }
  return p;
}
static inline unsigned long vl_strtoul(const char* s, char** end, int base) {
  _Bool neg, ovf, any; unsigned long mag;
  const char* p = vl_scan(s, base, &neg, &mag, &ovf, &any);
  if (!any) { if (end) *end = (char*)s; return 0; }
  if (end) *end = (char*)p;
  if (ovf) { verif_errno = ERANGE; return 0xffffffffffffffffUL; }
  return neg ? (0UL - mag) : mag;
}
static inline long vl_strtol(const char* s, char** end, int base) {
  _Bool neg, ovf, any; unsigned long mag;
  const char* p = vl_scan(s, base, &neg, &mag, &ovf, &any);
  if (!any) { if (end) *end = (char*)s; return 0; }
  if (end) *end = (char*)p;
  if (neg) {
    if (ovf || mag > 0x8000000000000000UL) { verif_errno = ERANGE; return (long)(-0x7fffffffffffffffL - 1); }
    return (long)(0UL - mag);
  }
  if (ovf || mag > 0x7fffffffffffffffUL) { verif_errno = ERANGE; return 0x7fffffffffffffffL; }
  return (long)mag;
}
#define strtoul vl_strtoul
#define strtol vl_strtol
#endif
