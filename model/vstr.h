/* bounded value model of std::string as used by the extracted functions (R9).
 * capacity VSTR_CAP is a stated bound of the model; d[n] == 0 always (c_str()). */
#ifndef VSTR_H
#define VSTR_H
#include "vbase.h"
#ifndef VSTR_CAP
#define VSTR_CAP 8
#endif
typedef struct vstr { char d[VSTR_CAP + 1]; size_t n; } vstr;

static inline _Bool vstr_valid(const vstr* s) { return s->n <= VSTR_CAP && s->d[s->n] == 0; }
static inline size_t vstr_size(const vstr* s) { return s->n; }
static inline size_t vstr_length(const vstr* s) { return s->n; }
static inline _Bool vstr_empty(const vstr* s) { return s->n == 0; }
static inline const char* vstr_c_str(const vstr* s) { return s->d; }
/* operator[] (const): index == size() reads the terminator, beyond is undefined behaviour => asserted.  (CBMC's own bounds check converts the
 * index to a signed type and only checks the upper bound, so an index that wrapped below zero would pass it.) */
static inline char vstr_at(const vstr* s, size_t i) { __CPROVER_assert(i <= s->n, "[C20] std::string::operator[] index <= size()"); return s->d[i <= VSTR_CAP ? i : 0]; }
/* substr of exactly the std semantics for pos <= size (pos > size throws in C++: asserted) */
static inline vstr vstr_substr(const vstr* s, size_t pos, size_t len) {
  vstr r;
  __CPROVER_assert(pos <= s->n, "std::string::substr: pos <= size() (else std::out_of_range)");
  size_t avail = s->n - pos;
  r.n = len < avail ? len : avail;
  for (size_t k = 0; k < VSTR_CAP; k++) {
    r.d[k] = k < r.n ? s->d[pos + k] : 0;
  }
  r.d[VSTR_CAP] = 0;
  return r;
}
/* loop-free variant for literal len <= 4 (usable inside loops that carry loop contracts);
 * bytes after the terminator are unspecified */
static inline vstr vstr_substr_short(const vstr* s, size_t pos, size_t len) {
  vstr r;
  __CPROVER_assert(pos <= s->n, "std::string::substr: pos <= size() (else std::out_of_range)");
  __CPROVER_assert(len <= 4 && VSTR_CAP >= 4, "model: vstr_substr_short only for len <= 4");
  size_t avail = s->n - pos;
  r.n = len < avail ? len : avail;
  r.d[0] = 0 < r.n ? s->d[pos] : 0;
  r.d[1] = 1 < r.n ? s->d[pos + 1] : 0;
  r.d[2] = 2 < r.n ? s->d[pos + 2] : 0;
  r.d[3] = 3 < r.n ? s->d[pos + 3] : 0;
  r.d[4] = 0;
  r.d[VSTR_CAP] = 0;
  return r;
}
#endif
#ifndef VSTR_EXT_H
#define VSTR_EXT_H
/* further std::string operations (bounded model); npos is (size_t)-1 */
#define VSTR_NPOS ((size_t)-1)
static inline vstr vstr_from_cstr(const char* c) {
  vstr r; r.n = 0; _Bool end = 0;
  for (size_t i = 0; i < VSTR_CAP; i++) { if (!end && c[i] != 0) { r.d[i] = c[i]; r.n = i + 1; } else { end = 1; r.d[i] = 0; } }
  __CPROVER_assert(end || c[VSTR_CAP] == 0, "model capacity: C string longer than VSTR_CAP");
  r.d[VSTR_CAP] = 0;
  return r;
}
static inline void vstr_remove_char(vstr* s, char ch) {       /* s.erase(remove(s.begin(), s.end(), ch), s.end()) */
  size_t w = 0;
  for (size_t i = 0; i < VSTR_CAP; i++) { if (i < s->n && s->d[i] != ch) { s->d[w] = s->d[i]; w = w + 1; } }
  for (size_t i = 0; i <= VSTR_CAP; i++) { if (i >= w) s->d[i] = 0; }
  s->n = w;
}
static inline void vstr_append(vstr* s, const vstr* a) {
  __CPROVER_assert(s->n + a->n <= VSTR_CAP, "model capacity: string append beyond VSTR_CAP");
  for (size_t i = 0; i < VSTR_CAP; i++) { if (i < a->n && s->n + i < VSTR_CAP) s->d[s->n + i] = a->d[i]; }
  s->n = s->n + a->n <= VSTR_CAP ? s->n + a->n : VSTR_CAP;
  s->d[s->n] = 0;
}
static inline size_t vstr_find_cstr(const vstr* s, const char* pat, size_t pos) {   /* patterns of length 1 or 2 */
  size_t pl = pat[1] == 0 ? 1 : 2;
  __CPROVER_assert(pat[0] != 0 && (pl == 1 || pat[2] == 0), "model: find() pattern of one or two characters");
  size_t r = VSTR_NPOS;
  for (size_t i = 0; i < VSTR_CAP; i++) { if (r == VSTR_NPOS && i >= pos && i + pl <= s->n && s->d[i] == pat[0] && (pl == 1 || s->d[i + 1] == pat[1])) r = i; }
  return r;
}
static inline size_t vstr_find_char(const vstr* s, char ch, size_t pos) {
  size_t r = VSTR_NPOS;
  for (size_t i = 0; i < VSTR_CAP; i++) { if (r == VSTR_NPOS && i >= pos && i < s->n && s->d[i] == ch) r = i; }
  return r;
}
static inline size_t vstr_rfind_cstr6(const vstr* s, const char* pat) {             /* pattern of exactly 6 characters (" HTTP/") */
  size_t r = VSTR_NPOS;
  for (size_t i = 0; i < VSTR_CAP; i++) {
    if (i + 6 <= s->n && s->d[i] == pat[0] && s->d[i + 1] == pat[1] && s->d[i + 2] == pat[2] && s->d[i + 3] == pat[3] && s->d[i + 4] == pat[4] && s->d[i + 5] == pat[5]) r = i;
  }
  return r;
}
static inline void vstr_resize(vstr* s, size_t n) {
  __CPROVER_assert(n <= s->n, "model: resize only shrinks");
  for (size_t i = 0; i <= VSTR_CAP; i++) { if (i >= n) s->d[i] = 0; }
  if (n <= s->n) s->n = n;
}
static inline void vstr_erase(vstr* s, size_t pos, size_t len) {
  __CPROVER_assert(pos <= s->n, "std::string::erase: pos <= size() (else std::out_of_range)");
  size_t avail = s->n - pos; size_t l = len < avail ? len : avail;
  for (size_t i = 0; i < VSTR_CAP; i++) { if (i >= pos && i + l < VSTR_CAP + 1) s->d[i] = (i + l <= VSTR_CAP) ? s->d[i + l] : 0; }
  s->n = s->n - l; s->d[s->n] = 0;
}
/* std::string::replace(pos, len, count, ch) for count <= len (shrinking or equal) */
static inline void vstr_replace_fill(vstr* s, size_t pos, size_t len, size_t count, char ch) {
  __CPROVER_assert(pos <= s->n, "std::string::replace: pos <= size() (else std::out_of_range)");
  size_t avail = s->n - pos; size_t l = len < avail ? len : avail;
  __CPROVER_assert(count <= l, "model: replace(pos, len, count, ch) only with count <= len");
  if (count <= l) {
    vstr_erase(s, pos + count, l - count);
    for (size_t i = 0; i < VSTR_CAP; i++) { if (i >= pos && i < pos + count) s->d[i] = ch; }
  }
}
static inline char* vstr_ref(vstr* s, size_t i) { __CPROVER_assert(i < s->n, "std::string::operator[] index < size()"); return &s->d[i < VSTR_CAP ? i : 0]; }
#endif
#ifndef VSTR_EXT2_H
#define VSTR_EXT2_H
static inline size_t vstr_find_str(const vstr* s, const vstr* pat, size_t pos) {     /* std::string::find(str, pos) */
  size_t r = VSTR_NPOS;
  for (size_t i = 0; i <= VSTR_CAP; i++) {
    if (r == VSTR_NPOS && i >= pos && i + pat->n <= s->n) {
      _Bool m = 1;
      for (size_t k = 0; k < VSTR_CAP; k++) { if (k < pat->n && s->d[i + k <= VSTR_CAP ? i + k : 0] != pat->d[k]) m = 0; }
      if (m) r = i;
    }
  }
  return r;
}
static inline _Bool vstr_eq_lit1(const vstr* s, char c) { return s->n == 1 && s->d[0] == c; }
#endif
