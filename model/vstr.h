/* bounded value model of std::string as used by the extracted functions (R9).
 * capacity VSTR_CAP is a stated bound of the model; d[n] == 0 always (c_str()). */
#ifndef VSTR_H
#define VSTR_H
#include "vbase.h"
#ifndef VSTR_CAP
#define VSTR_CAP 8
#endif
typedef struct vstr { char d[VSTR_CAP + 1]; size_t n; } vstr;

static inline _Bool vstr_valid(const vstr* s) { return s->n <= VSTR_CAP && s->d[s->n] == 0; }
static inline size_t vstr_size(const vstr* s) { return s->n; }
static inline size_t vstr_length(const vstr* s) { return s->n; }
static inline _Bool vstr_empty(const vstr* s) { return s->n == 0; }
static inline const char* vstr_c_str(const vstr* s) { return s->d; }
static inline char vstr_at(const vstr* s, size_t i) { return s->d[i]; }
/* substr of exactly the std semantics for pos <= size (pos > size throws in C++: asserted) */
static inline vstr vstr_substr(const vstr* s, size_t pos, size_t len) {
  vstr r;
  __CPROVER_assert(pos <= s->n, "std::string::substr: pos <= size() (else std::out_of_range)");
  size_t avail = s->n - pos;
  r.n = len < avail ? len : avail;
  for (size_t k = 0; k < VSTR_CAP; k++) {
    r.d[k] = k < r.n ? s->d[pos + k] : 0;
  }
  r.d[VSTR_CAP] = 0;
  return r;
}
/* loop-free variant for literal len <= 4 (usable inside loops that carry loop contracts);
 * bytes after the terminator are unspecified */
static inline vstr vstr_substr_short(const vstr* s, size_t pos, size_t len) {
  vstr r;
  __CPROVER_assert(pos <= s->n, "std::string::substr: pos <= size() (else std::out_of_range)");
  __CPROVER_assert(len <= 4 && VSTR_CAP >= 4, "model: vstr_substr_short only for len <= 4");
  size_t avail = s->n - pos;
  r.n = len < avail ? len : avail;
  r.d[0] = 0 < r.n ? s->d[pos] : 0;
  r.d[1] = 1 < r.n ? s->d[pos + 1] : 0;
  r.d[2] = 2 < r.n ? s->d[pos + 2] : 0;
  r.d[3] = 3 < r.n ? s->d[pos + 3] : 0;
  r.d[4] = 0;
  r.d[VSTR_CAP] = 0;
  return r;
}
#endif
