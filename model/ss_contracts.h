/* Contracts of the inline SymbolString accessors of symbol.h.  Enforced against the extracted bodies in
 * unit symbol (runs ss_*); other units use them via --replace-call-with-contract.
 * Quantifiers range over the constant model capacity SS_CAP, so the SAT back end expands them. */
#ifndef SS_CONTRACTS_H
#define SS_CONTRACTS_H
#define SS_OK(s) ((s)->m_data.n <= SS_CAP)
#define SS_LENOFF(s) ((size_t)4 * (size_t)((s)->m_isMaster != 0))
#define SS_DATAOFF(s) ((size_t)1 + (size_t)4 * (size_t)((s)->m_isMaster != 0))
/* elements [0,upto) unchanged w.r.t. the pre-state, elements [from0,to0) are zero */
#define SS_KEEP_ZERO(s, upto, from0, to0) __CPROVER_forall { size_t k_; (k_ < SS_CAP) ==> \
   ((k_ < (upto) ==> (s)->m_data.d[k_] == __CPROVER_old((s)->m_data).d[k_]) && \
    ((k_ >= (from0) && k_ < (to0)) ==> (s)->m_data.d[k_] == 0)) }

symbol_t* SymbolString_at_nc(SymbolString* self, const size_t index)
__CPROVER_requires(__CPROVER_is_fresh(self, sizeof(*self)) && SS_OK(self) && index < SS_CAP)
__CPROVER_assigns(index >= self->m_data.n: self->m_data.n, __CPROVER_object_whole(self->m_data.d))
__CPROVER_ensures(__CPROVER_return_value == &self->m_data.d[index])
__CPROVER_ensures(self->m_data.n == (index >= __CPROVER_old(self->m_data.n) ? index + 1 : __CPROVER_old(self->m_data.n)))
__CPROVER_ensures(SS_KEEP_ZERO(self, __CPROVER_old(self->m_data.n), __CPROVER_old(self->m_data.n), self->m_data.n));

/* the same operator[] under the stronger precondition "index in bounds": no growth, nothing written */
symbol_t* SymbolString_at_nc_inb(SymbolString* self, const size_t index)
__CPROVER_requires(__CPROVER_is_fresh(self, sizeof(*self)) && SS_OK(self) && index < self->m_data.n)
__CPROVER_assigns()
__CPROVER_ensures(__CPROVER_return_value == &self->m_data.d[index]);

symbol_t SymbolString_at(const SymbolString* self, size_t index)
__CPROVER_requires(__CPROVER_is_fresh(self, sizeof(*self)) && SS_OK(self))
__CPROVER_assigns()
__CPROVER_ensures(__CPROVER_return_value == (index < self->m_data.n ? self->m_data.d[index] : (symbol_t)0xAA));

void SymbolString_push_back(SymbolString* self, symbol_t value)
__CPROVER_requires(__CPROVER_is_fresh(self, sizeof(*self)) && self->m_data.n < SS_CAP)
__CPROVER_assigns(self->m_data.n, self->m_data.d[self->m_data.n])
__CPROVER_ensures(self->m_data.n == __CPROVER_old(self->m_data.n) + 1 && self->m_data.d[__CPROVER_old(self->m_data.n)] == value);

size_t SymbolString_size(const SymbolString* self)
__CPROVER_requires(__CPROVER_is_fresh(self, sizeof(*self)))
__CPROVER_assigns()
__CPROVER_ensures(__CPROVER_return_value == self->m_data.n);

void SymbolString_clear(SymbolString* self)
__CPROVER_requires(__CPROVER_is_fresh(self, sizeof(*self)))
__CPROVER_assigns(self->m_data.n)
__CPROVER_ensures(self->m_data.n == 0);

/* NN := number of bytes after the length byte; false (and nothing changed) iff that would exceed 254... */
_Bool SymbolString_adjustHeader(SymbolString* self)
__CPROVER_requires(__CPROVER_is_fresh(self, sizeof(*self)) && SS_OK(self))
__CPROVER_assigns(self->m_data.n, __CPROVER_object_whole(self->m_data.d))
__CPROVER_ensures(__CPROVER_return_value == !(__CPROVER_old(self->m_data.n) >= SS_LENOFF(self) + 255))
__CPROVER_ensures(__CPROVER_return_value ==> self->m_data.n == (__CPROVER_old(self->m_data.n) <= SS_LENOFF(self) ? SS_LENOFF(self) + 1 : __CPROVER_old(self->m_data.n)))
__CPROVER_ensures(__CPROVER_return_value ==> self->m_data.d[SS_LENOFF(self)] == self->m_data.n - SS_LENOFF(self) - 1)
__CPROVER_ensures(!__CPROVER_return_value ==> self->m_data.n == __CPROVER_old(self->m_data.n))
__CPROVER_ensures(__CPROVER_forall { size_t k_; (k_ < SS_CAP) ==> ((k_ < __CPROVER_old(self->m_data.n) && (k_ != SS_LENOFF(self) || !__CPROVER_return_value)) ==> self->m_data.d[k_] == __CPROVER_old(self->m_data).d[k_]) })
__CPROVER_ensures(__CPROVER_forall { size_t j_; (j_ < SS_CAP) ==> ((j_ >= __CPROVER_old(self->m_data.n) && j_ < SS_LENOFF(self)) ==> self->m_data.d[j_] == 0) });

size_t SymbolString_getDataSize(const SymbolString* self)
__CPROVER_requires(__CPROVER_is_fresh(self, sizeof(*self)) && SS_OK(self))
__CPROVER_assigns()
__CPROVER_ensures(__CPROVER_return_value == (self->m_data.n <= SS_LENOFF(self) ? (size_t)0 :
     (self->m_data.n - SS_LENOFF(self) - 1 < self->m_data.d[SS_LENOFF(self)] ? self->m_data.n - SS_LENOFF(self) - 1 : (size_t)self->m_data.d[SS_LENOFF(self)])));

size_t SymbolString_getCalculatedDataSize(const SymbolString* self)
__CPROVER_requires(__CPROVER_is_fresh(self, sizeof(*self)) && SS_OK(self))
__CPROVER_assigns()
__CPROVER_ensures(__CPROVER_return_value == (self->m_data.n <= SS_LENOFF(self) ? (size_t)0 : self->m_data.n - SS_LENOFF(self) - 1));

symbol_t SymbolString_dataAt(const SymbolString* self, size_t index)
__CPROVER_requires(__CPROVER_is_fresh(self, sizeof(*self)) && SS_OK(self) && index < SS_CAP)
__CPROVER_assigns()
__CPROVER_ensures(__CPROVER_return_value == (SS_DATAOFF(self) + index < self->m_data.n ? self->m_data.d[SS_DATAOFF(self) + index] : (symbol_t)0));

symbol_t* SymbolString_dataAt_nc(SymbolString* self, size_t index)
__CPROVER_requires(__CPROVER_is_fresh(self, sizeof(*self)) && SS_OK(self) && index < SS_CAP - 5)
__CPROVER_assigns(SS_DATAOFF(self) + index >= self->m_data.n: self->m_data.n, __CPROVER_object_whole(self->m_data.d))
__CPROVER_ensures(__CPROVER_return_value == &self->m_data.d[SS_DATAOFF(self) + index])
__CPROVER_ensures(self->m_data.n == (SS_DATAOFF(self) + index >= __CPROVER_old(self->m_data.n) ? SS_DATAOFF(self) + index + 1 : __CPROVER_old(self->m_data.n)))
__CPROVER_ensures(SS_KEEP_ZERO(self, __CPROVER_old(self->m_data.n), __CPROVER_old(self->m_data.n), self->m_data.n));

_Bool SymbolString_isComplete(const SymbolString* self)
__CPROVER_requires(__CPROVER_is_fresh(self, sizeof(*self)) && SS_OK(self))
__CPROVER_assigns()
__CPROVER_ensures(__CPROVER_return_value == (self->m_data.n >= SS_LENOFF(self) + 1 && self->m_data.n >= SS_LENOFF(self) + 1 + self->m_data.d[SS_LENOFF(self)]));
#endif
