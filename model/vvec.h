/* fixed-capacity model of std::vector<symbol_t> (R10).  Capacity is a model bound; exceeding it is an
 * asserted obligation ("capacity"), never assumed. Elements at index >= n are unspecified. */
#ifndef VVEC_H
#define VVEC_H
#include "vbase.h"
#ifndef SS_CAP
#define SS_CAP 264
#endif
typedef struct vsym { symbol_t d[SS_CAP]; size_t n; } vsym;

static inline size_t vsym_size(const vsym* v) { return v->n; }
static inline void vsym_clear(vsym* v) { v->n = 0; }
static inline void vsym_push_back(vsym* v, symbol_t x) {
  __CPROVER_assert(v->n < SS_CAP, "model capacity: vector<symbol_t> grows beyond SS_CAP");
  v->d[v->n] = x;
  v->n = v->n + 1;
}
/* std::vector::operator[]: no bounds check in the real code => out of range is UB => asserted */
static inline symbol_t* vsym_ref(vsym* v, size_t i) {
  __CPROVER_assert(i < v->n, "vector<symbol_t>::operator[] index < size()");
  return &v->d[i];
}
static inline symbol_t vsym_get(const vsym* v, size_t i) {
  __CPROVER_assert(i < v->n, "vector<symbol_t>::operator[] index < size()");
  return v->d[i];
}
static inline const symbol_t* vsym_data(const vsym* v) { return v->d; }
/* resize(n, fill): new elements are set to fill */
static inline void vsym_resize(vsym* v, size_t nn, symbol_t fill) {
  __CPROVER_assert(nn <= SS_CAP, "model capacity: vector<symbol_t>::resize beyond SS_CAP");
  for (size_t k = 0; k < SS_CAP; k++)
#ifdef VVEC_LOOP_CONTRACT
    __CPROVER_assigns(k, __CPROVER_object_whole(v->d))
    __CPROVER_loop_invariant(k <= SS_CAP)
    __CPROVER_decreases(SS_CAP - k)
#endif
  {
    if (k >= v->n && k < nn) v->d[k] = fill;
  }
  v->n = nn;
}
static inline _Bool vsym_equal(const vsym* a, const vsym* b) {
  if (a->n != b->n) return 0;
  _Bool eq = 1;
  for (size_t k = 0; k < SS_CAP; k++) { if (k < a->n && a->d[k] != b->d[k]) eq = 0; }
  return eq;
}
#endif
